// Pipeline G for the reader specifications (C12, C13): walk the TLC-exported transition relation of
// spec/StreamReader.tla against the real MemoryReader / FileReader / SliceReader objects.
//
//   stream_walk --rel <relation.ndjson> --content 2,0,65,0 --backend mem|memslice|file|fileslice
//               --depth D [--random R --len L] --workdir DIR [--start K] [--seed S]
#include "common/proto_main.hpp"
#include "Stream/MemoryReader.h"
#include "Stream/FileReader.h"
#include "Stream/SliceReader.h"
#include <fstream>
#include <memory>
#include <random>
#include <set>
#include <functional>
#include <unordered_map>
#include <vector>
using namespace OP2Utility::Stream;
using json = nlohmann::json;

struct Tr { int s; std::string op, a, b, cls, site; int code = 0; bool ok, free; int n; std::vector<unsigned char> data; std::vector<std::array<long,3>> to; int toId; unsigned long long av, bv; };
static std::vector<std::vector<Tr>> REL;                 // by state id
static std::unordered_map<std::string,int> STATE_ID;
static std::vector<unsigned char> CONTENT;
static std::string BACKEND, WORKDIR, FILEPATH;
static std::set<std::string> SKIP_SITES;                  // sites already known to crash: walks through them are numbered but not executed
static const int GUARD = 5;                                // bytes around the source in the *slice backends
static std::vector<unsigned char> BIG;                     // guard + content + guard

static int state_id(const json& st) { auto k = st.dump(); auto it = STATE_ID.find(k); if (it != STATE_ID.end()) return it->second; int id = (int)STATE_ID.size(); STATE_ID[k] = id; REL.resize(id + 1); return id; }

// one live stream of whatever concrete type the backend produces
struct S {
	std::unique_ptr<MemoryReader> m; std::unique_ptr<FileReader> f; std::unique_ptr<FileSliceReader> fs;
	BidirectionalReader& r() { return m ? static_cast<BidirectionalReader&>(*m) : f ? static_cast<BidirectionalReader&>(*f) : static_cast<BidirectionalReader&>(*fs); }
	S sliceAt(unsigned long long st, unsigned long long n) { S c; if (m) c.m = std::make_unique<MemoryReader>(m->Slice(st, n)); else if (f) c.fs = std::make_unique<FileSliceReader>(f->Slice(st, n)); else c.fs = std::make_unique<FileSliceReader>(fs->Slice(st, n)); return c; }
	S sliceHere(unsigned long long n) { S c; if (m) c.m = std::make_unique<MemoryReader>(m->Slice(n)); else if (f) c.fs = std::make_unique<FileSliceReader>(f->Slice(n)); else c.fs = std::make_unique<FileSliceReader>(fs->Slice(n)); return c; }
};
static std::vector<S> fresh() {
	std::vector<S> v(1);
	if (BACKEND == "mem") v[0].m = std::make_unique<MemoryReader>(CONTENT.data(), CONTENT.size());
	else if (BACKEND == "memslice") { MemoryReader big(BIG.data(), BIG.size()); v[0].m = std::make_unique<MemoryReader>(big.Slice(GUARD, CONTENT.size())); }
	else if (BACKEND == "file") v[0].f = std::make_unique<FileReader>(FILEPATH);
	else { FileReader big(FILEPATH); v[0].fs = std::make_unique<FileSliceReader>(big.Slice(GUARD, CONTENT.size())); }
	return v;
}

// current walk, for crash reports
static const Tr* CUR[64]; static int CURLEN = 0, CURSTEP = 0;
static std::string describe_walk(int upto) { std::string p; for (int i = 0; i <= upto && i < CURLEN; ++i) { const Tr* t = CUR[i]; p += t->op + "(" + t->a + (t->op == "SliceAt" ? "," + t->b : "") + ")@" + std::to_string(t->s) + " "; } return p; }
static const std::string& site_of(const Tr& t) { return t.site; }
enum { OP_OTHER = 0, OP_READ, OP_READPARTIAL, OP_PEEK, OP_SEEK, OP_SEEKF, OP_SEEKB, OP_SEEKEND, OP_SEEKBEGIN };
static int op_code(const std::string& o) { return o == "Read" ? OP_READ : o == "ReadPartial" ? OP_READPARTIAL : o == "Peek" ? OP_PEEK : o == "Seek" ? OP_SEEK : o == "SeekForward" ? OP_SEEKF : o == "SeekBackward" ? OP_SEEKB : o == "SeekEnd" ? OP_SEEKEND : o == "SeekBeginning" ? OP_SEEKBEGIN : OP_OTHER; }
static void describe_for_crash() { if (CURLEN == 0) return; const Tr& t = *CUR[CURSTEP < CURLEN ? CURSTEP : CURLEN - 1]; Proto::sanitize(Proto::g_site, sizeof Proto::g_site, site_of(t)); Proto::sanitize(Proto::g_detail, sizeof Proto::g_detail, "content=" + json(CONTENT).dump() + " walk: " + describe_walk(CURSTEP)); }

static long long STEPS = 0;
// apply one transition to the live objects; false = stop this walk (diverged or mismatch reported)
static bool apply(std::vector<S>& L, const Tr& t, int step, int& stateId) {
	++STEPS; CURSTEP = step;
	S& s = L[t.s - 1]; BidirectionalReader& r = s.r();
	unsigned char buf[64]; memset(buf, 0xEE, sizeof buf);
	bool ok = true; unsigned long long n = 0; std::vector<unsigned char> got; bool hasData = false;
	try {
		if (t.code == OP_READ) { r.Read(buf + 8, (std::size_t)t.av); n = t.av; hasData = true; }
		else if (t.code == OP_READPARTIAL) { n = r.ReadPartial(buf + 8, (std::size_t)t.av); hasData = true; }
		else if (t.code == OP_PEEK) { r.Peek(buf + 8, (std::size_t)t.av); n = t.av; hasData = true; }
		else if (t.code == OP_SEEK) r.Seek(t.av);
		else if (t.code == OP_SEEKF) r.SeekForward(t.av);
		else if (t.code == OP_SEEKB) r.SeekBackward(t.av);
		else if (t.code == OP_SEEKEND) r.SeekEnd();
		else if (t.code == OP_SEEKBEGIN) r.SeekBeginning();
		else if (t.op == "SliceAt") L.push_back(s.sliceAt(t.av, t.bv));
		else if (t.op == "SliceHere") L.push_back(s.sliceHere(t.av));
		else if (t.op == "Drop") L.pop_back();
		else if (t.op.rfind("ReadPrefixed", 0) == 0) {
			std::string str;
			if (t.op == "ReadPrefixedU8") r.Read<uint8_t>(str); else if (t.op == "ReadPrefixedI8") r.Read<int8_t>(str);
			else if (t.op == "ReadPrefixedU16") r.Read<uint16_t>(str); else if (t.op == "ReadPrefixedI16") r.Read<int16_t>(str);
			else if (t.op == "ReadPrefixedU32") r.Read<uint32_t>(str); else r.Read<int32_t>(str);
			got.assign(str.begin(), str.end()); n = got.size();
		}
		else if (t.op.rfind("ReadValue", 0) == 0) { hasData = true;
			if (t.op == "ReadValue8") { uint8_t v; r.Read(v); memcpy(buf + 8, &v, n = 1); } else if (t.op == "ReadValue16") { uint16_t v; r.Read(v); memcpy(buf + 8, &v, n = 2); }
			else if (t.op == "ReadValue32") { uint32_t v; r.Read(v); memcpy(buf + 8, &v, n = 4); } else { uint64_t v; r.Read(v); memcpy(buf + 8, &v, n = 8); } }
		else if (t.op.rfind("ReadContainer", 0) == 0) { hasData = true; const std::size_t cnt = (std::size_t)t.av;
			if (t.op == "ReadContainer8") { std::vector<uint8_t> v(cnt, 0xEE); r.Read(v); n = cnt; if (n) memcpy(buf + 8, v.data(), n); } else if (t.op == "ReadContainer16") { std::vector<uint16_t> v(cnt, 0xEEEE); r.Read(v); n = cnt * 2; if (n) memcpy(buf + 8, v.data(), n); }
			else if (t.op == "ReadContainer32") { std::vector<uint32_t> v(cnt, 0xEEEEEEEEu); r.Read(v); n = cnt * 4; if (n) memcpy(buf + 8, v.data(), n); } else { std::vector<uint64_t> v(cnt, 0xEEEEEEEEEEEEEEEEull); r.Read(v); n = cnt * 8; if (n) memcpy(buf + 8, v.data(), n); } }
		else if (t.op == "ReadCString") { std::string str = r.ReadNullTerminatedString((std::size_t)t.av); got.assign(str.begin(), str.end()); n = got.size(); }
	} catch (const std::exception&) { ok = false; }
	const std::string& site = site_of(t);
	auto where = [&] { return "content=" + json(CONTENT).dump() + " walk: " + describe_walk(step); };
	if (ok != t.ok) { Proto::mismatch(site, ok ? "accepted-should-refuse" : "refused-should-accept", where()); return false; }
	if (ok && hasData) { got.assign(buf + 8, buf + 8 + (n <= 48 ? n : 48)); }
	if (ok && (hasData || !got.empty() || (t.code == OP_OTHER && (t.op.rfind("ReadPre", 0) == 0 || t.op == "ReadCString")))) {
		if ((long long)n != t.n) { Proto::mismatch(site, "count", where() + " returned " + std::to_string(n) + " want " + std::to_string(t.n)); return false; }
		if (got != t.data) { Proto::mismatch(site, "bytes", where() + " got " + json(got).dump() + " want " + json(t.data).dump()); return false; }
		for (int i = 0; i < 8; ++i) if (buf[i] != 0xEE) { Proto::mismatch(site, "wrote-before-buffer", where()); return false; }
		if (hasData) for (std::size_t i = 8 + n; i < sizeof buf; ++i) if (buf[i] != 0xEE) { Proto::mismatch(site, "wrote-past-count", where()); return false; }
	}
	// projected state of every live stream against the specification's successor state
	if (L.size() != t.to.size()) { Proto::mismatch(site, "live-count", where()); return false; }
	json obs = json::array();
	for (std::size_t i = 0; i < L.size(); ++i) {
		BidirectionalReader& q = L[i].r(); unsigned long long pos = q.Position(), len = q.Length();
		bool acting = (int)i == t.s - 1;
		if (t.free && acting) {                           // position after a failed typed helper: any value in [pos, len]
			if (len != (unsigned long long)t.to[i][1] || pos > len || pos < (unsigned long long)t.to[i][2]) { Proto::mismatch(site, "state-after-failure", where() + " pos=" + std::to_string((long long)pos)); return false; }
			obs.push_back({t.to[i][0], t.to[i][1], (long)pos});
			continue;
		}
		if (pos != (unsigned long long)t.to[i][2] || len != (unsigned long long)t.to[i][1]) {
			Proto::mismatch(site, ok ? (acting ? "state" : "other-stream-changed") : "state-after-failure", where() + " stream " + std::to_string(i + 1) + " pos=" + std::to_string((long long)pos) + " len=" + std::to_string((long long)len) + " want pos=" + std::to_string(t.to[i][2]) + " len=" + std::to_string(t.to[i][1]));
			return false; }
		if (t.free) obs.push_back({t.to[i][0], t.to[i][1], t.to[i][2]});
	}
	if (t.free) { auto it = STATE_ID.find(obs.dump()); if (it == STATE_ID.end()) { Proto::mismatch(site, "state-after-failure", where() + " unreachable state " + obs.dump()); return false; } stateId = it->second; }
	else stateId = t.toId;
	return true;
}
// transitions the backend is not asked to honour: a bare FileReader does not bounds-check seeks, and the
// property quantifies over in-bounds operation sequences for it
// (a refused slice is different: "creating one that is not contained in its parent fails leaving the parent untouched" holds for every parent)
static bool skipped(const Tr& t) { return BACKEND == "file" && t.s == 1 && (!t.ok || t.cls != "small") && t.op != "SliceAt" && t.op != "SliceHere"; }

int main(int argc, char** argv) {
	Proto::init(argc, argv); Proto::g_describe = describe_for_crash;
	std::string relPath; int depth = 2; long randomWalks = 0; int randomLen = 50;
	for (int i = 1; i + 1 < argc; ++i) { std::string a = argv[i], v = argv[i + 1];
		if (a == "--rel") relPath = v; else if (a == "--backend") BACKEND = v; else if (a == "--depth") depth = atoi(v.c_str());
		else if (a == "--random") randomWalks = atol(v.c_str()); else if (a == "--len") randomLen = atoi(v.c_str()); else if (a == "--workdir") WORKDIR = v;
		else if (a == "--skip-sites") { std::string x; for (char c : v + ",") { if (c == ',') { if (!x.empty()) SKIP_SITES.insert(x); x.clear(); } else x.push_back(c); } }
		else if (a == "--content") { std::string x; for (char c : v + ",") { if (c == ',') { if (!x.empty()) CONTENT.push_back((unsigned char)atoi(x.c_str())); x.clear(); } else x.push_back(c); } } }
	BIG.assign(GUARD, 0xA1); BIG.insert(BIG.end(), CONTENT.begin(), CONTENT.end()); BIG.insert(BIG.end(), GUARD, 0xA2);
	FILEPATH = WORKDIR + "/src-" + BACKEND + ".bin";
	{ std::ofstream o(FILEPATH, std::ios::binary); auto& src = (BACKEND == "fileslice") ? BIG : CONTENT; o.write((const char*)src.data(), (std::streamsize)src.size()); }
	// load the relation
	{ std::ifstream f(relPath); std::string line; std::vector<std::pair<int, json>> pend;
		while (std::getline(f, line)) { if (line.empty()) continue; json j = json::parse(line); int from = state_id(j["f"]); int to = state_id(j["t"]);
			Tr t; t.s = j["s"]; t.op = j["op"]; t.a = j["a"]; t.b = j["b"]; t.cls = j["cls"]; t.site = BACKEND + "." + t.op + "/" + t.cls; t.code = op_code(t.op); t.ok = j["res"] == "ok"; t.free = j["free"]; t.n = j["n"]; for (auto& x : j["data"]) t.data.push_back((unsigned char)x.get<int>());
			for (auto& st : j["t"]) t.to.push_back({st[0].get<long>(), st[1].get<long>(), st[2].get<long>()}); t.toId = to; t.av = SymArg(t.a); t.bv = SymArg(t.b);
			REL[from].push_back(std::move(t)); } }
	json init = json::array({json::array({0, (long)CONTENT.size(), 0})}); int initId = state_id(init);
	long long walks = 0, caseNo = 0;
	// exhaustive walks up to `depth`: every walk is replayed from fresh objects
	std::vector<const Tr*> pre; std::vector<int> preState;
	std::function<void(int, bool)> dfs = [&](int st, bool dead) {
		if ((int)pre.size() == depth) return;
		for (const Tr& t : REL[st]) { if (skipped(t)) continue;
			pre.push_back(&t); long long k = caseNo++;
			bool deadHere = dead || SKIP_SITES.count(site_of(t)) > 0;
			int reached = t.toId; bool good = true;
			if (!deadHere && Proto::begin_case_fast(k)) { if ((k & 1023) == 0) Proto::watchdog((unsigned)Proto::g_watchdog_s);
				CURLEN = (int)pre.size(); for (int i = 0; i < CURLEN; ++i) CUR[i] = pre[i];
				auto L = fresh(); int sid = initId; for (int i = 0; i < CURLEN && good; ++i) good = apply(L, *pre[i], i, sid); reached = sid; ++walks; }
			// Below a walk that disagreed with the specification nothing more is executed, but numbering continues.
			// A step whose successor position is left open by the specification (failed typed helper) ends the walk:
			// the enumeration must not depend on what the implementation did.
			(void)reached;
			if (!t.free) dfs(t.toId, deadHere || !good);
			pre.pop_back(); } };
	dfs(initId, false);
	// seeded random walks
	std::mt19937_64 rng(Proto::g_seed * 7919 + 17);
	for (long w = 0; w < randomWalks; ++w) { long long k = caseNo++; std::vector<const Tr*> path; int st = initId;   // choose the walk first (cheap), then maybe execute
		std::mt19937_64 wr(rng()); for (int i = 0; i < randomLen; ++i) { auto& out = REL[st]; if (out.empty()) break; const Tr* t = &out[wr() % out.size()]; if (skipped(*t) || t->free || SKIP_SITES.count(site_of(*t))) { continue; } path.push_back(t); st = t->toId; }
		if (!Proto::begin_case_fast(k)) continue; Proto::watchdog((unsigned)Proto::g_watchdog_s);
		CURLEN = (int)std::min<std::size_t>(path.size(), 64); for (int i = 0; i < CURLEN; ++i) CUR[i] = path[i];
		auto L = fresh(); int sid = initId; bool good = true; for (int i = 0; i < CURLEN && good; ++i) good = apply(L, *path[i], i, sid); ++walks; }
	std::size_t ntr = 0; for (auto& v : REL) ntr += v.size();
	Proto::summary({{"backend", BACKEND}, {"states", REL.size()}, {"transitions", ntr}, {"walks", walks}, {"cases", caseNo}, {"steps", STEPS}, {"depth", depth}});
	return 0;
}
