// Pipeline G for the writer specifications (C14 a/b): walk the TLC-exported transition relation of
// spec/StreamWriter.tla (Machine = "fixed" | "grow") against MemoryWriter / DynamicMemoryWriter.
//   writer_walk --rel <relation.ndjson> --machine fixed|grow --n N --depth D [--random R --len L] [--start K] [--skip-sites ..]
#include "common/proto_main.hpp"
#include "Stream/MemoryWriter.h"
#include "Stream/DynamicMemoryWriter.h"
#include "Stream/FileWriter.h"
#include <unistd.h>
#include <fstream>
#include <functional>
#include <memory>
#include <random>
#include <set>
#include <unordered_map>
#include <vector>
using namespace OP2Utility::Stream;
using json = nlohmann::json;
struct Tr { std::string op, a, cls; bool ok; long pos; std::vector<int> cells; int stamp, fromStamp; int toId; unsigned long long av; };
static std::vector<std::vector<Tr>> REL; static std::unordered_map<std::string,int> STATE_ID; static std::set<std::string> SKIP_SITES;
static std::string MACHINE; static int N = 3; static const int G = 8;
static int state_id(const json& st) { auto k = st.dump(); auto it = STATE_ID.find(k); if (it != STATE_ID.end()) return it->second; int id = (int)STATE_ID.size(); STATE_ID[k] = id; REL.resize(id + 1); return id; }
static std::string site_of(const Tr& t) { return MACHINE + "." + t.op + "/" + t.cls; }
static const Tr* CUR[64]; static int CURLEN = 0, CURSTEP = 0;
static std::string describe_walk(int upto) { std::string p; for (int i = 0; i <= upto && i < CURLEN; ++i) p += CUR[i]->op + "(" + CUR[i]->a + ") "; return p; }
static void describe_for_crash() { if (!CURLEN) return; const Tr& t = *CUR[CURSTEP < CURLEN ? CURSTEP : CURLEN - 1]; Proto::sanitize(Proto::g_site, sizeof Proto::g_site, site_of(t)); Proto::sanitize(Proto::g_detail, sizeof Proto::g_detail, "n=" + std::to_string(N) + " walk: " + describe_walk(CURSTEP)); }
static long long STEPS = 0;
struct Obj { std::vector<unsigned char> mem; std::unique_ptr<MemoryWriter> fixed; std::unique_ptr<DynamicMemoryWriter> grow; std::unique_ptr<FileWriter> file; };
static std::string FILEPATH;
static Obj fresh(long long k) { Obj o;
	if (MACHINE == "file") { ::unlink(FILEPATH.c_str());          // every second walk runs on a writer that was moved from the one that opened the file
		if (k % 2) { FileWriter w(FILEPATH); o.file = std::make_unique<FileWriter>(std::move(w)); } else o.file = std::make_unique<FileWriter>(FILEPATH);
		if (o.file->GetFilename() != FILEPATH) Proto::mismatch("file.GetFilename/small", "value", o.file->GetFilename()); return o; }
	if (MACHINE == "fixed") { o.mem.assign(N + 2 * G, 0); for (int i = 0; i < G; ++i) { o.mem[i] = 0xC1; o.mem[G + N + i] = 0xC2; } o.fixed = std::make_unique<MemoryWriter>(o.mem.data() + G, N); } else {
		// the preallocation hint of the second constructor is not part of the specification's state: GrowInit is the empty writer whatever the hint
		static const std::size_t HINTS[] = {0, 1, 7, 64, 4096}; const int v = (int)(k % 6);
		if (v == 0) o.grow = std::make_unique<DynamicMemoryWriter>(); else o.grow = std::make_unique<DynamicMemoryWriter>(HINTS[v - 1]); }
	return o; }
static bool apply(Obj& o, const Tr& t, int step) {
	++STEPS; CURSTEP = step; BidirectionalWriter& w = o.fixed ? static_cast<BidirectionalWriter&>(*o.fixed) : o.file ? static_cast<BidirectionalWriter&>(*o.file) : static_cast<BidirectionalWriter&>(*o.grow);
	bool ok = true; static unsigned char src[64];
	try {
		if (t.op == "Write") { memset(src, t.fromStamp, sizeof src); w.Write(src, (std::size_t)t.av); }    // for non-small sizes the source is (much) shorter than announced: a correct writer refuses before touching it
		else if (t.op == "Seek") w.Seek(t.av); else if (t.op == "SeekForward") w.SeekForward(t.av); else if (t.op == "SeekBackward") w.SeekBackward(t.av);
	} catch (const std::exception&) { ok = false; }
	const std::string site = site_of(t); auto where = [&] { return "n=" + std::to_string(N) + " walk: " + describe_walk(step); };
	if (ok != t.ok) { Proto::mismatch(site, ok ? "accepted-should-refuse" : "refused-should-accept", where()); return false; }
	unsigned long long pos = w.Position(), len = w.Length();
	std::vector<int> got;
	if (o.fixed) { for (int i = 0; i < N; ++i) got.push_back(o.mem[G + i]); for (int i = 0; i < G; ++i) if (o.mem[i] != 0xC1 || o.mem[G + N + i] != 0xC2) { Proto::mismatch(site, "guard-zone-written", where()); return false; }
		if (len != (unsigned long long)N) { Proto::mismatch(site, "length", where()); return false; } }
	else if (o.file) { std::ifstream f(FILEPATH, std::ios::binary); std::vector<unsigned char> b((std::istreambuf_iterator<char>(f)), std::istreambuf_iterator<char>()); got.assign(b.begin(), b.end());     // Length() has just synchronised the stream with the file
		if (len != got.size()) { Proto::mismatch(site, "length", where() + " Length() = " + std::to_string((long long)len) + ", the file holds " + std::to_string(got.size())); return false; } }
	else { auto r = o.grow->GetReader(); std::vector<unsigned char> b(r.Length()); if (!b.empty()) r.Read(b.data(), b.size()); got.assign(b.begin(), b.end()); if (len != got.size()) { Proto::mismatch(site, "length", where()); return false; } }
	if (pos != (unsigned long long)t.pos) { Proto::mismatch(site, ok ? "state" : "state-after-failure", where() + " pos=" + std::to_string((long long)pos) + " want " + std::to_string(t.pos)); return false; }
	if (got != t.cells) { Proto::mismatch(site, ok ? "content" : "state-after-failure", where() + " content " + json(got).dump() + " want " + json(t.cells).dump()); return false; }
	return true; }
int main(int argc, char** argv) {
	Proto::init(argc, argv); Proto::g_describe = describe_for_crash; std::string relPath; int depth = 2; long randomWalks = 0; int randomLen = 40;
	for (int i = 1; i + 1 < argc; ++i) { std::string a = argv[i], v = argv[i + 1];
		if (a == "--rel") relPath = v; else if (a == "--machine") MACHINE = v; else if (a == "--n") N = atoi(v.c_str()); else if (a == "--depth") depth = atoi(v.c_str()); else if (a == "--random") randomWalks = atol(v.c_str()); else if (a == "--len") randomLen = atoi(v.c_str());
		else if (a == "--file") FILEPATH = v;
		else if (a == "--skip-sites") { std::string x; for (char c : v + ",") { if (c == ',') { if (!x.empty()) SKIP_SITES.insert(x); x.clear(); } else x.push_back(c); } } }
	int initId = -1;
	{ std::ifstream f(relPath); std::string line; while (std::getline(f, line)) { if (line.empty()) continue; json j = json::parse(line); int from = state_id(j["f"]); int to = state_id(j["t"]); if (initId < 0 && j["f"][0] == 0 && j["f"][2] == 1) initId = from;
		Tr t; t.op = j["op"]; t.a = j["a"]; t.cls = j["cls"]; t.ok = j["res"] == "ok"; t.pos = j["t"][0]; for (auto& c : j["t"][1]) t.cells.push_back(c.get<int>()); t.stamp = j["t"][2]; t.fromStamp = j["f"][2]; t.toId = to; t.av = SymArg(t.a); REL[from].push_back(std::move(t)); } }
	long long walks = 0, caseNo = 0; std::vector<const Tr*> pre;
	std::function<void(int, bool)> dfs = [&](int st, bool dead) { if ((int)pre.size() == depth) return;
		for (const Tr& t : REL[st]) { pre.push_back(&t); long long k = caseNo++; bool deadHere = dead || SKIP_SITES.count(site_of(t)) > 0; bool good = true;
			if (!deadHere && Proto::begin_case_fast(k)) { if ((k & 1023) == 0) Proto::watchdog((unsigned)Proto::g_watchdog_s); CURLEN = (int)pre.size(); for (int i = 0; i < CURLEN; ++i) CUR[i] = pre[i]; Obj o = fresh(k); for (int i = 0; i < CURLEN && good; ++i) good = apply(o, *pre[i], i); ++walks; }
			dfs(t.toId, deadHere || !good); pre.pop_back(); } };
	dfs(initId, false);
	std::mt19937_64 rng(Proto::g_seed * 104729 + 5);
	for (long wk = 0; wk < randomWalks; ++wk) { long long k = caseNo++; std::vector<const Tr*> path; int st = initId; std::mt19937_64 wr(rng()); for (int i = 0; i < randomLen; ++i) { auto& out = REL[st]; if (out.empty()) break; const Tr* t = &out[wr() % out.size()]; if (SKIP_SITES.count(site_of(*t))) continue; path.push_back(t); st = t->toId; }
		if (!Proto::begin_case_fast(k)) continue; Proto::watchdog((unsigned)Proto::g_watchdog_s); CURLEN = (int)std::min<std::size_t>(path.size(), 64); for (int i = 0; i < CURLEN; ++i) CUR[i] = path[i]; Obj o = fresh(k); bool good = true; for (int i = 0; i < CURLEN && good; ++i) good = apply(o, *path[i], i); ++walks; }
	std::size_t ntr = 0; for (auto& v : REL) ntr += v.size();
	Proto::summary({{"machine", MACHINE}, {"states", REL.size()}, {"transitions", ntr}, {"walks", walks}, {"cases", caseNo}, {"steps", STEPS}, {"depth", depth}}); return 0; }
