// Pipeline G for spec/XFs.tla (beyond the listed properties): walk the TLC-exported transition relation of the file-system machine
// against the real XFile helpers (NewDirectory, DeletePath, RenameFile, PathExists, IsFile, IsDirectory, Dir*, EraseNonFilenames) and
// FileWriter on a sandbox directory.
//   fs_walk --rel <relation.ndjson> --root DIR --depth D [--random R --len L] [--start K] [--skip-sites ..]
#include "common/proto_main.hpp"
#include "XFile.h"
#include "Stream/FileWriter.h"
#include <algorithm>
#include <filesystem>
#include <fstream>
#include <functional>
#include <random>
#include <regex>
#include <set>
#include <unordered_map>
#include <vector>
using namespace OP2Utility; using json = nlohmann::json; namespace fs = std::filesystem;
static const char* UNIVERSE[] = {"f", "g", "d", "d/f", "e", "e/f"}; static const int NU = 6;
struct Tr { std::string op, a, b; bool ok; std::vector<std::string> to; int toId; };
static std::vector<std::vector<Tr>> REL; static std::unordered_map<std::string,int> STATE_ID; static std::set<std::string> SKIP_SITES; static std::string ROOT;
static int state_id(const json& st) { auto k = st.dump(); auto it = STATE_ID.find(k); if (it != STATE_ID.end()) return it->second; int id = (int)STATE_ID.size(); STATE_ID[k] = id; REL.resize(id + 1); return id; }
static std::string site_of(const Tr& t) { return "xfs." + t.op; }
static const Tr* CUR[64]; static int CURLEN = 0, CURSTEP = 0;
static std::string describe_walk(int upto) { std::string p; for (int i = 0; i <= upto && i < CURLEN; ++i) p += CUR[i]->op + "(" + CUR[i]->a + (CUR[i]->b.empty() ? "" : "," + CUR[i]->b) + ") "; return p; }
static void describe_for_crash() { if (!CURLEN) return; const Tr& t = *CUR[CURSTEP < CURLEN ? CURSTEP : CURLEN - 1]; Proto::sanitize(Proto::g_site, sizeof Proto::g_site, site_of(t)); Proto::sanitize(Proto::g_detail, sizeof Proto::g_detail, "walk: " + describe_walk(CURSTEP)); }
static long long STEPS = 0;
static void fresh() { fs::remove_all(ROOT); fs::create_directories(ROOT); }
static std::vector<std::string> sorted(std::vector<std::string> v) { std::sort(v.begin(), v.end()); return v; }
static bool apply(const Tr& t, int step) {
	++STEPS; CURSTEP = step; const std::string pa = ROOT + "/" + t.a, pb = ROOT + "/" + t.b; bool ok = true;
	try { if (t.op == "NewDirectory") XFile::NewDirectory(pa); else if (t.op == "WriteFile") { Stream::FileWriter w(pa); unsigned char c = 7; w.Write(&c, 1); }
		else if (t.op == "DeletePath") XFile::DeletePath(pa); else if (t.op == "RenameFile") XFile::RenameFile(pa, pb); } catch (const std::exception&) { ok = false; }
	const std::string site = site_of(t); auto where = [&] { return "walk: " + describe_walk(step); };
	if (ok != t.ok) { Proto::mismatch(site, ok ? "accepted-should-refuse" : "refused-should-accept", where()); return false; }
	// the kind of every path of the universe, through the library's own observers
	for (int i = 0; i < NU; ++i) { const std::string p = ROOT + "/" + UNIVERSE[i]; const bool ex = XFile::PathExists(p), isf = XFile::IsFile(p), isd = XFile::IsDirectory(p);
		const std::string kind = !ex ? "none" : isf ? "file" : isd ? "dir" : "other";
		if (kind != t.to[i] || (isf && isd) || (!ex && (isf || isd))) { Proto::mismatch(site, ok ? "state" : "state-after-failure", where() + " " + UNIVERSE[i] + " is " + kind + ", want " + t.to[i]); return false; } }
	// directory listings of the sandbox root and of the two sub-directories
	auto listing = [&](const std::string& dir, int parent) -> bool { std::vector<std::string> all, files; for (int i = 0; i < NU; ++i) { const std::string n = UNIVERSE[i]; const bool top = n.find('/') == std::string::npos;
			if ((parent < 0) != top) continue; if (!top && n.substr(0, 1) != std::string(UNIVERSE[parent])) continue; if (t.to[i] == "none") continue; const std::string leaf = top ? n : n.substr(2); all.push_back(leaf); if (t.to[i] == "file") files.push_back(leaf); }
		std::vector<std::string> full; for (auto& n : all) full.push_back(dir + "/" + n); XFile::EraseNonFilenames(full); std::vector<std::string> fullWant; for (auto& n : files) fullWant.push_back(dir + "/" + n);
		if (sorted(XFile::Dir(dir)) != sorted(all) || sorted(XFile::DirFiles(dir)) != sorted(files) || sorted(XFile::DirWithExtension(dir, "")) != sorted(all) || sorted(XFile::DirFilesWithExtension(dir, "")) != sorted(files)
			|| !XFile::DirWithExtension(dir, ".x").empty() || sorted(XFile::Dir(dir, std::regex("^[a-z]$"))) != sorted(all) || sorted(XFile::DirFiles(dir, std::regex("^[a-z]$"))) != sorted(files) || !XFile::Dir(dir, std::regex("sandbox")).empty() || sorted(full) != sorted(fullWant))
			{ Proto::mismatch(site + "/listing", "value", where() + " listing of " + dir); return false; } return true; };
	if (!listing(ROOT, -1)) return false;
	for (int d : {2, 4}) if (t.to[d] == "dir" && !listing(ROOT + "/" + UNIVERSE[d], d)) return false;
	return true; }
int main(int argc, char** argv) {
	Proto::init(argc, argv); Proto::g_describe = describe_for_crash; std::string relPath; int depth = 2; long randomWalks = 0; int randomLen = 30;
	for (int i = 1; i + 1 < argc; ++i) { std::string a = argv[i], v = argv[i + 1];
		if (a == "--rel") relPath = v; else if (a == "--root") ROOT = v + "/sandbox"; else if (a == "--depth") depth = atoi(v.c_str()); else if (a == "--random") randomWalks = atol(v.c_str()); else if (a == "--len") randomLen = atoi(v.c_str());
		else if (a == "--skip-sites") { std::string x; for (char c : v + ",") { if (c == ',') { if (!x.empty()) SKIP_SITES.insert(x); x.clear(); } else x.push_back(c); } } }
	int initId = -1;
	{ std::ifstream f(relPath); std::string line; while (std::getline(f, line)) { if (line.empty()) continue; json j = json::parse(line); int from = state_id(j["f"]); int to = state_id(j["t"]);
		if (initId < 0) { bool empty = true; for (auto& k : j["f"]) if (k != "none") empty = false; if (empty) initId = from; }
		Tr t; t.op = j["op"]; t.a = j["a"]; t.b = j["b"]; t.ok = j["res"] == "ok"; for (auto& k : j["t"]) t.to.push_back(k.get<std::string>()); t.toId = to; REL[from].push_back(std::move(t)); } }
	if (initId < 0) { Proto::mismatch("xfs.load", "harness-io", "no transition leaves the empty file system"); return 0; }
	long long walks = 0, caseNo = 0; std::vector<const Tr*> pre;
	std::function<void(int, bool)> dfs = [&](int st, bool dead) { if ((int)pre.size() == depth) return;
		for (const Tr& t : REL[st]) { pre.push_back(&t); long long k = caseNo++; bool deadHere = dead || SKIP_SITES.count(site_of(t)) > 0; bool good = true;
			if (!deadHere && Proto::begin_case_fast(k)) { if ((k & 255) == 0) Proto::watchdog((unsigned)Proto::g_watchdog_s); CURLEN = (int)pre.size(); for (int i = 0; i < CURLEN; ++i) CUR[i] = pre[i]; fresh(); for (int i = 0; i < CURLEN && good; ++i) good = apply(*pre[i], i); ++walks; }
			dfs(t.toId, deadHere || !good); pre.pop_back(); } };
	dfs(initId, false);
	std::mt19937_64 rng(Proto::g_seed * 104729 + 11);
	for (long wk = 0; wk < randomWalks; ++wk) { long long k = caseNo++; std::vector<const Tr*> path; int st = initId; std::mt19937_64 wr(rng()); for (int i = 0; i < randomLen; ++i) { auto& out = REL[st]; if (out.empty()) break; const Tr* t = &out[wr() % out.size()]; if (SKIP_SITES.count(site_of(*t))) continue; path.push_back(t); st = t->toId; }
		if (!Proto::begin_case_fast(k)) continue; Proto::watchdog((unsigned)Proto::g_watchdog_s); CURLEN = (int)std::min<std::size_t>(path.size(), 64); for (int i = 0; i < CURLEN; ++i) CUR[i] = path[i]; fresh(); bool good = true; for (int i = 0; i < CURLEN && good; ++i) good = apply(*path[i], i); ++walks; }
	std::size_t ntr = 0; for (auto& v : REL) ntr += v.size();
	Proto::summary({{"states", REL.size()}, {"transitions", ntr}, {"walks", walks}, {"cases", caseNo}, {"steps", STEPS}, {"depth", depth}}); return 0; }
