// Scenario steps on bitmaps, tilesets and PRT sprite metadata (C08, C09, C10, C11).
#include "ops.hpp"
static std::vector<unsigned char> bmp_bytes(const BitmapFile& b) { switch (via(3)) { case 1: { const std::string p = via_path("via_out.bmp"); b.WriteIndexed(p); return Scen::slurp(p); }
	case 2: { const std::string p = via_path("via_out2.bmp"); b.WriteIndexed(Stream::FileWriter(p)); return Scen::slurp(p); } default: { Stream::DynamicMemoryWriter w; b.WriteIndexed(w); return dyn_bytes(w); } } }
static BitmapFile bmp_from(const std::vector<unsigned char>& b) { switch (via(3)) { case 1: return BitmapFile::ReadIndexed(Stream::MemoryReader(b.data(), b.size()));
	case 2: { const std::string p = via_path("via_in.bmp"); Scen::spit(p, b); return BitmapFile::ReadIndexed(p); } default: { Stream::MemoryReader r(b.data(), b.size()); return BitmapFile::ReadIndexed(r); } } }
// ---- PRT sprite metadata (C10) -----------------------------------------------------------------------------------------
static ArtFile art_build(const json& v) { ArtFile a; a.unknownAnimationCount = v["unknownCount"];
	for (auto& p : v["palettes"]) { Palette8Bit pal; for (int i = 0; i < 256; ++i) pal[i] = Color{(uint8_t)p[i][0].get<int>(), (uint8_t)p[i][1].get<int>(), (uint8_t)p[i][2].get<int>(), (uint8_t)p[i][3].get<int>()}; a.palettes.push_back(pal); }
	for (auto& im : v["images"]) { ImageMeta m{}; m.scanLineByteWidth = im["scan"]; m.pixelDataOffset = im["off"]; m.height = im["h"]; m.width = im["w"]; uint16_t ty = im["type"]; memcpy(&m.type, &ty, 2); m.paletteIndex = im["pal"]; a.imageMetas.push_back(m); }
	for (auto& an : v["anims"]) { Animation A{}; auto b4 = [&](const json& x) { uint32_t r = 0; for (int i = 3; i >= 0; --i) r = (r << 8) | (uint32_t)x[i].get<int>(); return r; };
		A.unknown = b4(an["u1"]); A.unknown2 = b4(an["u2"]); std::vector<unsigned char> rect = raw(an["rect"]), disp = raw(an["disp"]); memcpy(&A.selectionRect, rect.data(), 16); memcpy(&A.pixelDisplacement, disp.data(), 8);
		for (auto& f : an["frames"]) { Animation::Frame fr{}; fr.layerMetadata.count = f["n1"].get<int>(); fr.layerMetadata.bReadOptionalData = f["o1"].get<int>(); fr.unknownBitfield.count = f["n2"].get<int>(); fr.unknownBitfield.bReadOptionalData = f["o2"].get<int>();
			fr.optional1 = f["o1"].get<int>() ? f["opt"][0].get<int>() : 0; fr.optional2 = f["o1"].get<int>() ? f["opt"][1].get<int>() : 0; fr.optional3 = f["o2"].get<int>() ? f["opt"][2].get<int>() : 0; fr.optional4 = f["o2"].get<int>() ? f["opt"][3].get<int>() : 0;
			for (auto& l : f["layers"]) { Animation::Frame::Layer L; auto lb = raw(l); memcpy(&L, lb.data(), 8); fr.layers.push_back(L); } A.frames.push_back(fr); }
		for (auto& u : an["unk"]) { Animation::UnknownContainer U; auto ub = raw(u); memcpy(&U, ub.data(), 16); A.unknownContainer.push_back(U); } a.animations.push_back(A); }
	return a; }
static std::vector<unsigned char> art_bytes(const ArtFile& a) { if (via(2) == 1) { const std::string p = via_path("via_out.prt"); a.Write(p); return Scen::slurp(p); } Stream::DynamicMemoryWriter w; a.Write(w); return dyn_bytes(w); }
static ArtFile art_from(const std::vector<unsigned char>& b) { switch (via(3)) { case 1: return ArtFile::Read(Stream::MemoryReader(b.data(), b.size()));
	case 2: { const std::string p = via_path("via_in.prt"); Scen::spit(p, b); return ArtFile::Read(p); } default: { Stream::MemoryReader r(b.data(), b.size()); return ArtFile::Read(r); } } }
bool ops_image(Ctx& c, const json& s, int idx, bool& handled) {
	OPS_PROLOGUE
	if (op == "bmp_roundtrip") { auto in = raw(s["input"]), canon = raw(s["canon"]), flip = raw(s["flip"]); BitmapFile b; if (throws([&] { b = bmp_from(in); })) { Proto::mismatch(site, "refused-should-accept", where("")); return false; }
		auto bad = [&](const std::string& what) { Proto::mismatch(site, "field", where(what)); return false; };
		if (throws([&] { b.Validate(); })) return bad("Validate() refuses what ReadIndexed returned");
		if (b.imageHeader.width != s["w"].get<int>() || b.imageHeader.height != s["h"].get<int>() || b.imageHeader.bitCount != s["bc"].get<int>()) return bad("geometry");
		if (b.imageHeader.width < 0) return bad("negative width"); if (b.palette.size() != s["npal"].get<std::size_t>()) return bad("palette length " + std::to_string(b.palette.size()));
		if (b.pixels.size() != s["rows"].get<std::size_t>() * s["pitch"].get<std::size_t>() || b.AbsoluteHeight() != s["rows"].get<uint32_t>()) return bad("rows x pitch");
		std::vector<unsigned char> out; if (throws([&] { out = bmp_bytes(b); })) { Proto::mismatch(site, "write-refused", where("")); return false; } if (out != canon) { Proto::mismatch(site, "bytes", where("written " + Scen::hexdiff(out, canon))); return false; }
		BitmapFile b2; if (throws([&] { b2 = bmp_from(out); })) { Proto::mismatch(site, "reread-refused", where("")); return false; }
		if (b2.imageHeader.width != b.imageHeader.width || b2.imageHeader.height != b.imageHeader.height || b2.imageHeader.bitCount != b.imageHeader.bitCount) return bad("geometry after reread");
		for (std::size_t i = 0; i < b.palette.size(); ++i) if (i >= b2.palette.size() || !(b2.palette[i] == b.palette[i])) return bad("palette entry " + std::to_string(i) + " after reread");
		if (bmp_bytes(b2) != out) { Proto::mismatch(site, "not-byte-stable", where("")); return false; }
		BitmapFile f = b; f.InvertScanLines(); if (f.imageHeader.height != -b.imageHeader.height) return bad("flip does not negate the height"); if (bmp_bytes(f) != flip) { Proto::mismatch(site + "/flip", "bytes", where(Scen::hexdiff(bmp_bytes(f), flip))); return false; }
		f.InvertScanLines(); if (!(f == b)) { Proto::mismatch(site + "/flip", "twice-is-not-identity", where("")); return false; }
		// the small helpers of the header agree with the description: row bytes, pitch, depth predicates; != is the negation of == on every level
		const std::size_t rowBytes = ((std::size_t)s["w"].get<int>() * s["bc"].get<int>() + 7) / 8;
		if (b.imageHeader.CalcPixelByteWidth() != rowBytes || b.imageHeader.CalculatePitch() != s["pitch"].get<std::size_t>() || ImageHeader::CalculatePitch(b.imageHeader.bitCount, b.imageHeader.width) != s["pitch"].get<std::size_t>()) return bad("row bytes / pitch helpers");
		if (!b.imageHeader.IsIndexedImage() || !b.imageHeader.IsValidBitCount() || throws([&] { b.imageHeader.VerifyValidBitCount(); }) || ImageHeader::IsValidBitCount((uint16_t)(b.imageHeader.bitCount + 1)) != (b.imageHeader.bitCount + 1 == 4 || b.imageHeader.bitCount + 1 == 8) || !throws([&] { ImageHeader::VerifyValidBitCount(3); }) || ImageHeader::IsIndexedImage(16)) return bad("depth predicates");
		{ BitmapFile g = b; g.InvertScanLines(); const bool same = g == b;
			if ((g != b) == same || (g.imageHeader != b.imageHeader) == (g.imageHeader == b.imageHeader) || (g.bmpHeader != b.bmpHeader) == (g.bmpHeader == b.bmpHeader)) return bad("!= is not the negation of ==");
			if (same != (b.imageHeader.height == 0)) return bad("a flipped bitmap compares equal to the original");
			for (std::size_t i = 0; i + 1 < b.palette.size(); ++i) if ((b.palette[i] != b.palette[i + 1]) == (b.palette[i] == b.palette[i + 1])) return bad("Color != is not the negation of =="); }
		return true; }
	if (op == "bmp_factory") { BitmapFile b; if (throws([&] { b = BitmapFile::CreateIndexed(s["bc"].get<uint16_t>(), s["w"].get<uint32_t>(), s["h"].get<int32_t>()); })) { Proto::mismatch(site, "refused-should-accept", where("")); return false; }
		if (throws([&] { b.Validate(); })) { Proto::mismatch(site, "field", where("Validate() refuses a factory-made bitmap")); return false; }
		auto out = bmp_bytes(b), want = raw(s["image"]); if (out != want) { Proto::mismatch(site, "bytes", where(Scen::hexdiff(out, want))); return false; } BitmapFile b2; if (throws([&] { b2 = bmp_from(out); }) || !(b2 == b)) { Proto::mismatch(site, "round-trip-not-equal", where("")); return false; } return true; }
	if (op == "tileset") { auto asBmp = raw(s["bmp"]), custom = raw(s["custom"]), top = raw(s["top"]);
		for (int which = 0; which < 2; ++which) { const auto& src = which ? custom : asBmp; const std::string sub = which ? "/from-custom" : "/from-bmp"; BitmapFile b; Stream::MemoryReader r(src.data(), src.size());
			if (throws([&] { b = via(2) ? Tileset::ReadTileset(Stream::MemoryReader(src.data(), src.size())) : Tileset::ReadTileset(r); })) { Proto::mismatch(site + sub, "refused-should-accept", where("")); return false; }
			if (which == 1) { BitmapFile b3; if (throws([&] { b3 = via(2) ? Tileset::ReadCustomTileset(Stream::MemoryReader(src.data(), src.size())) : [&] { Stream::MemoryReader r3(src.data(), src.size()); return Tileset::ReadCustomTileset(r3); }(); }) || !(b3 == b)) { Proto::mismatch(site + sub, "entry-points-differ", where("ReadCustomTileset against the detecting loader")); return false; } }
			if (which == 1 && b.imageHeader.height > 0) { Proto::mismatch(site + sub, "not-top-down", where("")); return false; }
			BitmapFile t = b; if (t.GetScanLineOrientation() == ScanLineOrientation::BottomUp) t.InvertScanLines();       // compare as pictures
			if (bmp_bytes(t) != top) { Proto::mismatch(site + sub, "picture", where(Scen::hexdiff(bmp_bytes(t), top))); return false; }
			Stream::DynamicMemoryWriter w; if (throws([&] { Tileset::WriteCustomTileset(w, b); })) { Proto::mismatch(site + sub, "save-refused", where("")); return false; }
			{ const std::string p = via_path("via_out.tset"); if (throws([&] { Tileset::WriteCustomTileset(Stream::FileWriter(p), b); }) || Scen::slurp(p) != dyn_bytes(w)) { Proto::mismatch(site + sub, "entry-points-differ", where("WriteCustomTileset to a temporary file writer")); return false; } }
			if (dyn_bytes(w) != custom) { Proto::mismatch(site + sub, "custom-bytes", where(Scen::hexdiff(dyn_bytes(w), custom))); return false; } }
		return true; }
	if (op == "tileset_bad" && s.contains("custom")) { auto src = raw(s["custom"]);         // a custom-format file that is not a tileset: refused by the detecting and by the custom-format loader
		{ Stream::MemoryReader r(src.data(), src.size()); if (!throws([&] { Tileset::ReadTileset(r); })) { Proto::mismatch(site + "/load", "accepted-should-refuse", where("custom-format file, header word altered")); return false; } }
		{ Stream::MemoryReader r(src.data(), src.size()); if (!throws([&] { Tileset::ReadCustomTileset(r); })) { Proto::mismatch(site + "/load-custom", "accepted-should-refuse", where("custom-format file, header word altered")); return false; } }
		return true; }
	if (op == "tileset_bad") { auto src = raw(s["bmp"]); Stream::MemoryReader r(src.data(), src.size()); if (!throws([&] { Tileset::ReadTileset(r); })) { Proto::mismatch(site + "/load", "accepted-should-refuse", where("")); return false; }
		{ Stream::MemoryReader rc(src.data(), src.size()); if (!throws([&] { Tileset::ReadCustomTileset(rc); })) { Proto::mismatch(site + "/load-custom", "accepted-should-refuse", where("the custom-format loader accepted a standard bitmap")); return false; } }
		BitmapFile b = bmp_from(src); Stream::DynamicMemoryWriter w; if (!throws([&] { Tileset::WriteCustomTileset(w, b); })) { Proto::mismatch(site + "/save", "accepted-should-refuse", where("")); return false; } return true; }
	if (op == "ts_detect") { auto src = raw(s["bytes"]); Stream::MemoryReader r(src.data(), src.size()); r.Seek(s["pos"].get<uint64_t>()); bool got = Tileset::PeekIsCustomTileset(r); if (got != s["expect"].get<bool>()) { Proto::mismatch(site, "value", where("")); return false; }
		{ Stream::MemoryReader r2(src.data(), src.size()); r2.Seek(s["pos"].get<uint64_t>()); if (Tileset::PeekIsCustomTileset(std::move(r2)) != got) { Proto::mismatch(site, "entry-points-differ", where("")); return false; } }
		if (s.contains("isBitmap")) { bool bm = BitmapFile::PeekIsBitmap(r); if (bm != s["isBitmap"].get<bool>()) { Proto::mismatch(site + "/bitmap", "value", where("")); return false; }
			Stream::MemoryReader r2(src.data(), src.size()); r2.Seek(s["pos"].get<uint64_t>()); if (BitmapFile::PeekIsBitmap(std::move(r2)) != bm) { Proto::mismatch(site + "/bitmap", "entry-points-differ", where("")); return false; } } if (r.Position() != s["pos"].get<uint64_t>()) { Proto::mismatch(site, "moved-the-stream", where("")); return false; } return true; }
	if (op == "prt_roundtrip") { auto in = raw(s["input"]), canon = raw(s["canon"]); ArtFile a; Stream::MemoryReader r(in.data(), in.size()); if (throws([&] { a = ArtFile::Read(r); })) { Proto::mismatch(site, "refused-should-accept", where("")); return false; }
		if (r.Position() != in.size()) { Proto::mismatch(site, "consumed", where("consumed " + std::to_string(r.Position()) + " of " + std::to_string(in.size()))); return false; }
		// the parsed structure equals the logical value (compared through the specification's own encoding of it)
		ArtFile ref = art_build(s["value"]); if (art_bytes(ref) != canon) { Proto::mismatch(site + "/build", "bytes", where("harness-built value does not encode to the canonical bytes")); return false; }
		const json& v = s["value"]; if (a.palettes.size() != v["palettes"].size() || a.imageMetas.size() != v["images"].size() || a.animations.size() != v["anims"].size() || a.unknownAnimationCount != v["unknownCount"].get<uint32_t>()) { Proto::mismatch(site, "field", where("top-level counts")); return false; }
		for (std::size_t p = 0; p < a.palettes.size(); ++p) for (int i = 0; i < 256; ++i) { const json& c = v["palettes"][p][i]; const Color& g = a.palettes[p][i]; if (g.red != c[0].get<int>() || g.green != c[1].get<int>() || g.blue != c[2].get<int>() || g.alpha != c[3].get<int>()) { Proto::mismatch(site, "palette-channel-order", where("palette " + std::to_string(p) + " entry " + std::to_string(i))); return false; } }
		auto before = art_bytes(a); if (before != canon) { Proto::mismatch(site, "bytes", where(Scen::hexdiff(before, canon))); return false; }
		auto again = art_bytes(a); if (again != before) { Proto::mismatch(site, "write-altered-the-object", where("")); return false; }
		ArtFile a2; if (throws([&] { a2 = art_from(before); }) || art_bytes(a2) != before) { Proto::mismatch(site, "not-byte-stable", where("")); return false; } return true; }
	if (op == "prt_read") { auto in = raw(s["input"]); bool refused = throws([&] { art_from(in); }); bool want = s["expect"] == "refuse";
		if (refused != want) { Proto::mismatch(site, refused ? "refused-should-accept" : "accepted-should-refuse", where("")); return false; } return true; }
	if (op == "prt_write") { ArtFile a = art_build(s["value"]); std::vector<unsigned char> out; bool refused = throws([&] { out = art_bytes(a); }); bool want = s["expect"] == "refuse";
		if (refused != want) { Proto::mismatch(site, refused ? "refused-should-accept" : "accepted-should-refuse", where("")); return false; } if (!refused && out != raw(s["canon"])) { Proto::mismatch(site, "bytes", where("")); return false; } return true; }
	// ---- C11: a (truncated / corrupted) bitmap, tileset or PRT file: an ordinary error, or an object that is safe to use ----------
	if (op == "robust_image") { const std::string kind = s["kind"], fault = s["fault"], must = s["must"]; const std::string fsite = site + "/" + kind + "." + fault;
		Proto::sanitize(Proto::g_site, sizeof Proto::g_site, fsite);
		if (s.value("slow", false)) { static const bool thorough = getenv("VERIF_TIER") && std::string(getenv("VERIF_TIER")) == "thorough"; if (!thorough) return true; Proto::watchdog(3000); }
		auto img = raw(s["image"]); bool err = false; long followUps = 0;
		auto at = [&](const std::string& what) { Proto::sanitize(Proto::g_site, sizeof Proto::g_site, fsite + "/" + what); };
		// every follow-up operation is an ordinary success or an ordinary error; anything else is caught by the sanitizers / watchdog
		auto tryOp = [&](const std::string& what, const std::function<void()>& f) { at(what); ++followUps; try { f(); } catch (const std::exception&) { } };
		auto useBitmap = [&](BitmapFile& b) {
			tryOp("Validate", [&] { b.Validate(); });
			tryOp("WriteIndexed", [&] { Stream::DynamicMemoryWriter w; b.WriteIndexed(w); });
			tryOp("WriteIndexed(file)", [&] { b.WriteIndexed(ROOT + "/out.bmp"); });
			tryOp("WriteCustomTileset", [&] { Stream::DynamicMemoryWriter w; Tileset::WriteCustomTileset(w, b); });
			tryOp("ValidateTileset", [&] { Tileset::ValidateTileset(b); });
			tryOp("SwapRedAndBlue", [&] { b.SwapRedAndBlue(); });
			tryOp("AbsoluteHeight", [&] { (void)b.AbsoluteHeight(); (void)b.GetScanLineOrientation(); });
			tryOp("InvertScanLines", [&] { BitmapFile c2 = b; c2.InvertScanLines(); Stream::DynamicMemoryWriter w; c2.WriteIndexed(w); c2.InvertScanLines(); });
			tryOp("compare", [&] { BitmapFile c2 = b; if (!(c2 == b)) throw std::logic_error("copy differs"); }); };
		if (kind == "bmp" || kind == "tileset") { BitmapFile b; Stream::MemoryReader r(img.data(), img.size()); at("load");
			try { b = kind == "bmp" ? BitmapFile::ReadIndexed(r) : Tileset::ReadTileset(r); } catch (const std::exception&) { err = true; }
			if (!err && kind == "bmp") { at("postcondition");      // C08: whatever the reader accepts is a valid bitmap (checked before any follow-up operation touches it)
				const long long w = b.imageHeader.width, h = b.imageHeader.height, bc = b.imageHeader.bitCount; std::string why;
				if (w < 0) why = "negative width " + std::to_string(w);
				else if (bc != 1 && bc != 4 && bc != 8) why = "bit depth " + std::to_string(bc);
				else if (b.palette.size() > (std::size_t(1) << bc)) why = "palette of " + std::to_string(b.palette.size()) + " entries";
				else if ((unsigned long long)b.pixels.size() != (unsigned long long)(((w * bc + 31) / 32) * 4) * (unsigned long long)(h < 0 ? -h : h)) why = "pixel bytes " + std::to_string(b.pixels.size()) + " for " + std::to_string(w) + " x " + std::to_string(h) + " at depth " + std::to_string(bc);
				else if (throws([&] { b.Validate(); })) why = "Validate() refuses what ReadIndexed returned";
				if (!why.empty()) Proto::mismatch(fsite + "/postcondition", "accepted-invalid-bitmap", where(why)); }
			if (!err) { useBitmap(b);
				if (kind == "tileset") { at("postcondition");      // C09: whatever the detecting loader accepts can be saved in the custom format and loads back as the same picture
					std::string why; std::vector<unsigned char> saved; BitmapFile again;
					{ Stream::DynamicMemoryWriter w; if (throws([&] { Tileset::WriteCustomTileset(w, b); saved = dyn_bytes(w); })) why = "the custom-format writer refuses what the loader returned"; }
					if (why.empty()) { Stream::MemoryReader r2(saved.data(), saved.size()); if (throws([&] { again = Tileset::ReadTileset(r2); })) why = "the saved tileset does not load";
						else { BitmapFile t = b; if (t.GetScanLineOrientation() == ScanLineOrientation::BottomUp) t.InvertScanLines(); if (again.pixels != t.pixels || again.imageHeader.height != t.imageHeader.height) why = "the saved tileset loads as a different picture";
							for (std::size_t i = 0; i < b.palette.size() && why.empty(); ++i) if (!(again.palette[i] == b.palette[i])) why = "palette entry " + std::to_string(i) + " differs after the round trip"; } }
					if (!why.empty()) Proto::mismatch(fsite + "/postcondition", "accepted-tileset-does-not-round-trip", where(why)); }
				if (kind == "tileset" && fault != "none") { at("load");         // a loaded tileset satisfies the tileset constraints
					if (b.imageHeader.bitCount != 8 || b.imageHeader.width != 32 || b.imageHeader.height % 32 != 0) { Proto::mismatch(fsite, "constraint-violating-tileset-loaded", where("")); return false; } } } }
		else { auto art = std::make_shared<ArtFile>(); Stream::MemoryReader r(img.data(), img.size()); at("load");
			try { *art = ArtFile::Read(r); } catch (const std::exception&) { err = true; }
			if (!err) { at("postcondition");      // C10: whatever the reader accepts satisfies the cross-field rules (over the naturals) and round-trips byte-stably
				std::string why;
				for (std::size_t i = 0; i < art->imageMetas.size() && why.empty(); ++i) { const auto& im = art->imageMetas[i];
					if (im.paletteIndex >= art->palettes.size()) why = "image " + std::to_string(i) + " names palette " + std::to_string(im.paletteIndex) + " of " + std::to_string(art->palettes.size());
					else if ((unsigned long long)im.scanLineByteWidth != (((unsigned long long)im.width + 3) / 4) * 4) why = "image " + std::to_string(i) + ": scan line " + std::to_string(im.scanLineByteWidth) + " for width " + std::to_string(im.width); }
				if (why.empty()) { std::vector<unsigned char> w1, w2; bool wfail = throws([&] { w1 = art_bytes(*art); });
					if (wfail) why = "the writer refuses what the reader returned";
					else if (throws([&] { ArtFile a2 = art_from(w1); w2 = art_bytes(a2); }) || w2 != w1) why = "the written bytes do not read back to the same bytes"; }
				if (!why.empty()) Proto::mismatch(fsite + "/postcondition", "accepted-invalid-prt", where(why));
				tryOp("Write", [&] { Stream::DynamicMemoryWriter w; art->Write(w); });
				for (auto& pf : s["pixelFiles"]) { std::size_t len = pf; std::string bmp = ROOT + "/pix" + std::to_string(len) + ".bmp"; { std::vector<unsigned char> px(len); for (std::size_t j = 0; j < len; ++j) px[j] = (unsigned char)(j * 13 + 1); Scen::spit(bmp, px); }
					tryOp("SpriteLoader", [&] { SpriteLoader loader(bmp, art); if (loader.ImageCount() != art->imageMetas.size() || loader.AnimationCount() != art->animations.size()) Proto::mismatch(fsite + "/SpriteLoader", "count", where("ImageCount / AnimationCount"));
						for (std::size_t i = 0; i <= art->imageMetas.size() + 1; ++i) tryOp("ExtractImage", [&] { loader.ExtractImage(i, ROOT + "/sprite.bmp"); });
						tryOp("FrameCount", [&] { if (!art->animations.empty()) { (void)loader.FrameCount(0); if (!art->animations[0].frames.empty()) (void)loader.LayerCount(0, 0); } }); }); } } }
		at("load");
		// a proper prefix is refused through every entry point: the same bytes offered as a file (a file reader may be positioned beyond its end)
		if (must == "refuse") { const std::string pth = via_path("prefix.bin"); Scen::spit(pth, img); bool fileErr = false;
			try { if (kind == "bmp") { (void)BitmapFile::ReadIndexed(pth); Stream::FileReader fr(pth); (void)BitmapFile::ReadIndexed(fr); } else if (kind == "tileset") { Stream::FileReader fr(pth); (void)Tileset::ReadTileset(fr); } else (void)ArtFile::Read(pth); }
			catch (const std::exception&) { fileErr = true; }
			if (!fileErr) { Proto::mismatch(fsite, "accepted-should-refuse", where("a proper prefix of a valid file was loaded from a FILE (" + std::to_string(img.size()) + " bytes)")); return false; } }
		// every other faulted image once more from a FILE, for safety only (a file reader stores what it can before it reports a short read)
		if (must != "refuse") { at("load-file"); const std::string pth = via_path("fault.bin"); Scen::spit(pth, img);
			try { if (kind == "bmp") { Stream::FileReader fr(pth); (void)BitmapFile::ReadIndexed(fr); } else if (kind == "tileset") { Stream::FileReader fr(pth); (void)Tileset::ReadTileset(fr); } else (void)ArtFile::Read(pth); }
			catch (const std::exception&) { } }
		if (must == "refuse" && !err) { Proto::mismatch(fsite, "accepted-should-refuse", where("a proper prefix of a valid file was loaded (" + std::to_string(img.size()) + " bytes)")); return false; }
		if (must == "accept" && err) { Proto::mismatch(fsite, "refused-should-accept", where("")); return false; }
		return true; }
	// ---- C08: the factory overloads taking a palette and pixel rows -----------------------------------------------------------------
	if (op == "bmp_factory2") { std::vector<Color> pal; for (auto& c : s["palette"]) pal.push_back(Color{(uint8_t)c[0].get<int>(), (uint8_t)c[1].get<int>(), (uint8_t)c[2].get<int>(), (uint8_t)c[3].get<int>()}); auto px = raw(s["pixels"]);
		BitmapFile b; if (throws([&] { b = BitmapFile::CreateIndexed(s["bc"].get<uint16_t>(), s["w"].get<uint32_t>(), s["h"].get<int32_t>(), pal, px); })) { Proto::mismatch(site, "refused-should-accept", where("")); return false; }
		if (b.pixels != px) { Proto::mismatch(site, "field", where("pixels are not the rows handed in")); return false; }
		for (std::size_t i = 0; i < pal.size(); ++i) if (!(b.palette[i] == pal[i])) { Proto::mismatch(site, "field", where("palette entry " + std::to_string(i))); return false; }
		auto out = bmp_bytes(b), want = raw(s["canon"]); if (out != want) { Proto::mismatch(site, "bytes", where(Scen::hexdiff(out, want))); return false; }
		BitmapFile b2; if (throws([&] { b2 = bmp_from(out); })) { Proto::mismatch(site, "reread-refused", where("")); return false; }
		if (b2.imageHeader.width != b.imageHeader.width || b2.imageHeader.height != b.imageHeader.height || b2.imageHeader.bitCount != b.imageHeader.bitCount || b2.palette != b.palette) { Proto::mismatch(site, "round-trip-not-equal", where("")); return false; }
		// (the pixel rows handed in may carry non-zero padding, which the writer zeroes: the headers and the palette must be equal, the pixels are compared through the bytes above)
		if (!(b2.bmpHeader == b.bmpHeader && b2.imageHeader == b.imageHeader)) { Proto::mismatch(site, "round-trip-not-equal", where("the object read back differs from the factory-made one (file header size " + std::to_string(b.bmpHeader.size) + " vs " + std::to_string(b2.bmpHeader.size) + ")")); return false; }
		if (throws([&] { b.Validate(); })) { Proto::mismatch(site, "field", where("Validate() refuses a factory-made bitmap")); return false; }
		return true; }
	// ---- C08: the factories at the edges of what they accept (depth, palette length, width around 2^31, pixel argument of the wrong length) ----
	if (op == "bmp_factory_edge") { const uint16_t bc = s["bc"].get<uint16_t>(); const uint32_t w = s["whi"].get<uint32_t>() * 65536u + s["wlo"].get<uint32_t>(); const int32_t h = s["h"].get<int32_t>();
		const std::size_t np = s["npal"]; const int delta = s["delta"]; const bool want = s["expect"] == "ok"; std::vector<Color> pal(np, Color{1, 2, 3, 0}); BitmapFile b; bool refused;
		if (delta == -99) refused = np == 0 ? throws([&] { b = BitmapFile::CreateIndexed(bc, w, h); }) : throws([&] { b = BitmapFile::CreateIndexed(bc, w, h, pal); });
		else { std::vector<uint8_t> px(s["rows"].get<std::size_t>() * s["pitch"].get<std::size_t>() + delta, 7); refused = throws([&] { b = BitmapFile::CreateIndexed(bc, w, h, pal, px); }); }
		if (refused == want) { Proto::mismatch(site, refused ? "refused-should-accept" : "accepted-should-refuse", where("depth " + std::to_string(bc) + " width " + std::to_string(w) + " height " + std::to_string(h))); return false; }
		if (refused) return true;
		if (throws([&] { b.Validate(); })) { Proto::mismatch(site, "field", where("Validate() refuses a factory-made bitmap")); return false; }
		if ((uint32_t)b.imageHeader.width != w || b.imageHeader.height != h || b.imageHeader.bitCount != bc) { Proto::mismatch(site, "field", where("geometry")); return false; }
		std::vector<unsigned char> out; if (throws([&] { out = bmp_bytes(b); })) { Proto::mismatch(site, "write-refused", where("")); return false; }
		if (s["rows"].get<int>() == 0 && out.size() != s["emptyLen"].get<std::size_t>()) { Proto::mismatch(site, "bytes", where("length " + std::to_string(out.size()))); return false; }
		BitmapFile b2; if (throws([&] { b2 = bmp_from(out); }) || !(b2.imageHeader == b.imageHeader) || !(b2.bmpHeader == b.bmpHeader) || b2.palette != b.palette) { Proto::mismatch(site, "round-trip-not-equal", where("")); return false; }
		return true; }
	OPS_EPILOGUE }
