// Scenario steps on the adaptive Huffman tree and the LZH decompressor (C15, C04).
#include "ops.hpp"
// ---- adaptive Huffman tree (C15) -------------------------------------------------------------------------
static json huff_shape(Archive::AdaptiveHuffmanTree& t, unsigned n, int depth = 0) { if (depth > 700) throw std::logic_error("cycle"); if (t.IsLeaf(n)) return t.GetNodeData(n); return json::array({huff_shape(t, t.GetChildNode(n, false), depth + 1), huff_shape(t, t.GetChildNode(n, true), depth + 1)}); }
// decoder walk driven by the bit string the *encoder* reports (LSB = branch taken at the root)
static long huff_walk_encoded(Archive::AdaptiveHuffmanTree& t, unsigned code) { unsigned bc = 0; unsigned bs = t.GetEncodedBitString(code, bc); unsigned n = t.GetRootNodeIndex(); for (unsigned i = 0; i < bc; ++i) { if (t.IsLeaf(n)) return -2; n = t.GetChildNode(n, (bs >> i) & 1); } return t.IsLeaf(n) ? (long)t.GetNodeData(n) : -1; }
static bool huff_check(Archive::AdaptiveHuffmanTree& t, int N, const json& obs, const std::string& site, const std::function<std::string(const std::string&)>& where) {
	json shape; try { shape = huff_shape(t, t.GetRootNodeIndex()); } catch (const std::exception& e) { Proto::mismatch(site, "shape-unreadable", where(e.what())); return false; }
	if (shape != obs["shape"]) { Proto::mismatch(site, "shape", where("got " + shape.dump() + " want " + obs["shape"].dump())); return false; }
	for (int s = 0; s < N; ++s) { unsigned bc = 0; unsigned bs = t.GetEncodedBitString(s, bc); const json& p = obs["paths"][s]; bool same = bc == p.size(); for (unsigned i = 0; same && i < bc; ++i) same = ((bs >> i) & 1) == p[i].get<unsigned>();
		long leaf = huff_walk_encoded(t, s);
		if (leaf != s) { Proto::mismatch(site, "encode-does-not-drive-decode", where("symbol " + std::to_string(s) + " walks to " + std::to_string(leaf))); return false; }
		if (!same) { Proto::mismatch(site, "encoded-path", where("symbol " + std::to_string(s))); return false; } }
	return true; }
bool ops_codec(Ctx& c, const json& s, int idx, bool& handled) {
	OPS_PROLOGUE
	if (op == "huff_seq") { int N = s["n"]; Archive::AdaptiveHuffmanTree t(N); if (!huff_check(t, N, s["init"], site + "/fresh", where)) return false; int k = 0;
		for (auto& u : s["seq"]) { ++k; unsigned x = u["x"]; bool ok = !throws([&] { t.UpdateCodeCount(x); }); auto w2 = [&](const std::string& e) { return where("after " + std::to_string(k) + " updates, last " + std::to_string(x) + " " + e); };
			if (ok != u["ok"].get<bool>()) { Proto::mismatch(site + (x >= (unsigned)N ? "/out-of-range" : "/update"), ok ? "accepted-should-refuse" : "refused-should-accept", w2("")); return false; }
			if (!huff_check(t, N, u["obs"], site + (ok ? "/update" : "/refused"), w2)) return false; }
		// node indices beyond the tree are refused by every accessor
		unsigned bad = 2 * N - 1; if (!(throws([&] { t.IsLeaf(bad); }) && throws([&] { t.GetChildNode(bad, false); }) && throws([&] { t.GetNodeData(bad); }))) { Proto::mismatch(site + "/node-index", "accepted-should-refuse", where("")); return false; }
		return true; }
	if (op == "lzh") { std::vector<unsigned char> in; for (auto& b : s["bytes"]) in.push_back((unsigned char)b.get<int>()); std::vector<unsigned char> want; for (auto& b : s["out"]) want.push_back((unsigned char)b.get<int>());
		Archive::HuffLZ z(Archive::BitStreamReader(in.data(), in.size())); std::vector<unsigned char> got; std::vector<char> buf(20000); int ci = 0;
		auto call = [&](const std::string& k, std::size_t n) -> bool { ++ci; std::size_t remaining = want.size() >= got.size() ? want.size() - got.size() : 0; auto w2 = [&](const std::string& e) { return where("call " + std::to_string(ci) + " " + k + "(" + std::to_string(n) + ") delivered so far " + std::to_string(got.size()) + " " + e); };
			if (k == "data") { std::size_t c = z.GetData(buf.data(), n); std::size_t exp = n < remaining ? n : remaining; if (c != exp) { Proto::mismatch(site + "/GetData", "count", w2("returned " + std::to_string(c) + " want " + std::to_string(exp))); return false; } got.insert(got.end(), buf.begin(), buf.begin() + c); }
			else { std::size_t c = 0; const char* p = z.GetInternalBuffer(&c); if ((remaining == 0) != (c == 0) || c > remaining || c > 4096) { Proto::mismatch(site + "/GetInternalBuffer", "count", w2("returned " + std::to_string(c) + " with " + std::to_string(remaining) + " outstanding")); return false; } got.insert(got.end(), p, p + c); }
			if (got.size() > want.size() || !std::equal(got.begin(), got.end(), want.begin())) { Proto::mismatch(site + (k == "data" ? "/GetData" : "/GetInternalBuffer"), "bytes", w2(Scen::hexdiff(got, want))); return false; } return true; };
		for (auto& c : s["sched"]) if (!call(c["k"], c["n"].get<std::size_t>())) return false;
		for (int guard = 0; got.size() < want.size() && guard < 100000; ++guard) if (!call("data", 4096)) return false;
		if (!call("data", 7)) return false;                                              // at the end: nothing more, ever
		{ std::size_t c = 1; z.GetInternalBuffer(&c); if (c != 0) { Proto::mismatch(site + "/GetInternalBuffer", "count", where("data after the end")); return false; } }
		return true; }
	OPS_EPILOGUE }
