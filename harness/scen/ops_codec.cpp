// Scenario steps on the adaptive Huffman tree and the LZH decompressor (C15, C04).
#include "ops.hpp"
#include <random>
// ---- adaptive Huffman tree (C15) -------------------------------------------------------------------------
static json huff_shape(Archive::AdaptiveHuffmanTree& t, unsigned n, int depth = 0) { if (depth > 700) throw std::logic_error("cycle"); if (t.IsLeaf(n)) return t.GetNodeData(n); return json::array({huff_shape(t, t.GetChildNode(n, false), depth + 1), huff_shape(t, t.GetChildNode(n, true), depth + 1)}); }
// decoder walk driven by the bit string the *encoder* reports (LSB = branch taken at the root)
static long huff_walk_encoded(Archive::AdaptiveHuffmanTree& t, unsigned code) { unsigned bc = 0; unsigned bs = t.GetEncodedBitString(code, bc); unsigned n = t.GetRootNodeIndex(); for (unsigned i = 0; i < bc; ++i) { if (t.IsLeaf(n)) return -2; n = t.GetChildNode(n, (bs >> i) & 1); } return t.IsLeaf(n) ? (long)t.GetNodeData(n) : -1; }
static bool huff_check(Archive::AdaptiveHuffmanTree& t, int N, const json& obs, const std::string& site, const std::function<std::string(const std::string&)>& where) {
	json shape; try { shape = huff_shape(t, t.GetRootNodeIndex()); } catch (const std::exception& e) { Proto::mismatch(site, "shape-unreadable", where(e.what())); return false; }
	if (shape != obs["shape"]) { Proto::mismatch(site, "shape", where("got " + shape.dump() + " want " + obs["shape"].dump())); return false; }
	for (int s = 0; s < N; ++s) { unsigned bc = 0; unsigned bs = t.GetEncodedBitString(s, bc); const json& p = obs["paths"][s]; bool same = bc == p.size(); for (unsigned i = 0; same && i < bc; ++i) same = ((bs >> i) & 1) == p[i].get<unsigned>();
		long leaf = huff_walk_encoded(t, s);
		if (leaf != s) { Proto::mismatch(site, "encode-does-not-drive-decode", where("symbol " + std::to_string(s) + " walks to " + std::to_string(leaf))); return false; }
		if (!same) { Proto::mismatch(site, "encoded-path", where("symbol " + std::to_string(s))); return false; } }
	return true; }
bool ops_codec(Ctx& c, const json& s, int idx, bool& handled) {
	OPS_PROLOGUE
	if (op == "huff_seq") { int N = s["n"]; Archive::AdaptiveHuffmanTree t(N); if (t.TerminalNodeCount() != (unsigned)N) { Proto::mismatch(site + "/fresh", "terminal-count", where("")); return false; } if (!huff_check(t, N, s["init"], site + "/fresh", where)) return false; int k = 0;
		for (auto& u : s["seq"]) { ++k; unsigned x = u["x"]; bool ok = !throws([&] { t.UpdateCodeCount(x); }); auto w2 = [&](const std::string& e) { return where("after " + std::to_string(k) + " updates, last " + std::to_string(x) + " " + e); };
			if (ok != u["ok"].get<bool>()) { Proto::mismatch(site + (x >= (unsigned)N ? "/out-of-range" : "/update"), ok ? "accepted-should-refuse" : "refused-should-accept", w2("")); return false; }
			if (!huff_check(t, N, u["obs"], site + (ok ? "/update" : "/refused"), w2)) return false; }
		// every other symbol outside the alphabet is refused by the update and by the encoder, and leaves the tree as it is
		if (s.contains("refused")) for (auto& rj : s["refused"]) { const unsigned x = rj.get<unsigned>(); unsigned bc = 0;
			if (!throws([&] { t.UpdateCodeCount((unsigned short)x); }) || !throws([&] { t.GetEncodedBitString((unsigned short)x, bc); })) { Proto::mismatch(site + "/out-of-range", "accepted-should-refuse", where("symbol " + std::to_string(x))); return false; }
			if (!huff_check(t, N, s["final"], site + "/refused", [&](const std::string& e) { return where("after the refused symbol " + std::to_string(x) + " " + e); })) return false; }
		// node indices beyond the tree are refused by every accessor
		unsigned bad = 2 * N - 1; if (!(throws([&] { t.IsLeaf(bad); }) && throws([&] { t.GetChildNode(bad, false); }) && throws([&] { t.GetNodeData(bad); }))) { Proto::mismatch(site + "/node-index", "accepted-should-refuse", where("")); return false; }
		return true; }
	if (op == "lzh") { std::vector<unsigned char> in; for (auto& b : s["bytes"]) in.push_back((unsigned char)b.get<int>()); std::vector<unsigned char> want; for (auto& b : s["out"]) want.push_back((unsigned char)b.get<int>());
		Archive::HuffLZ z(Archive::BitStreamReader(in.data(), in.size())); std::vector<unsigned char> got; std::vector<char> buf(20000); int ci = 0;
		auto call = [&](const std::string& k, std::size_t n) -> bool { ++ci; std::size_t remaining = want.size() >= got.size() ? want.size() - got.size() : 0; auto w2 = [&](const std::string& e) { return where("call " + std::to_string(ci) + " " + k + "(" + std::to_string(n) + ") delivered so far " + std::to_string(got.size()) + " " + e); };
			if (k == "data") { std::size_t c = z.GetData(buf.data(), n); std::size_t exp = n < remaining ? n : remaining; if (c != exp) { Proto::mismatch(site + "/GetData", "count", w2("returned " + std::to_string(c) + " want " + std::to_string(exp))); return false; } got.insert(got.end(), buf.begin(), buf.begin() + c); }
			else { std::size_t c = 0; const char* p = z.GetInternalBuffer(&c); if ((remaining == 0) != (c == 0) || c > remaining || c > 4096) { Proto::mismatch(site + "/GetInternalBuffer", "count", w2("returned " + std::to_string(c) + " with " + std::to_string(remaining) + " outstanding")); return false; } got.insert(got.end(), p, p + c); }
			if (got.size() > want.size() || !std::equal(got.begin(), got.end(), want.begin())) { Proto::mismatch(site + (k == "data" ? "/GetData" : "/GetInternalBuffer"), "bytes", w2(Scen::hexdiff(got, want))); return false; } return true; };
		for (auto& c : s["sched"]) if (!call(c["k"], c["n"].get<std::size_t>())) return false;
		for (int guard = 0; got.size() < want.size() && guard < 100000; ++guard) if (!call("data", 4096)) return false;
		if (!call("data", 7)) return false;                                              // at the end: nothing more, ever
		{ std::size_t c = 1; z.GetInternalBuffer(&c); if (c != 0) { Proto::mismatch(site + "/GetInternalBuffer", "count", where("data after the end")); return false; } }
		return true; }
	// ---- C04: long inputs, decoded by the specification's state machine (spec/LzhMachine.tla); output compared by length + checksum ----
	if (op == "lzh_long") { const std::string kind = s["kind"]; std::size_t len = s["len"]; std::vector<unsigned char> in(len);
		for (std::size_t i = 1; i <= len; ++i) in[i - 1] = (unsigned char)(kind == "zero" ? 0 : kind == "ff" ? 255 : kind == "aa" ? 170 : kind == "lcg" ? ((i * 1103 + (i / 7) * 12345 + 7) / 3) % 256 : (i * 37) % 256);
		const unsigned long long wantLen = s["outLen"]; const bool wantErr = s["err"]; Proto::watchdog(600);
		// drain schedules: a seeded mixture of both interfaces, the internal-buffer interface alone, and fixed GetData sizes; the small sizes keep
		// the decoder's 4 KiB queue as full as its fill threshold allows, which is where a wrong threshold lets a long match overrun unread bytes
		struct Mode { const char* name; long size; };
		std::vector<Mode> modes{{"mixed", -1}, {"ibuf", 0}, {"data1", 1}, {"data7", 7}, {"data61", 61}, {"data62", 62}, {"data4033", 4033}, {"data4034", 4034}, {"data4095", 4095}, {"data4096", 4096}, {"data4097", 4097}, {"data20000", 20000}};
		if (wantErr || wantLen > 200000) modes.resize(3);
		// ... plus the TLC-generated schedules (spec/MC_LzhSched.tla): a list of calls applied cyclically, 0 = GetInternalBuffer, n = GetData(n)
		std::vector<std::vector<long>> scheds; std::vector<std::string> schedNames; if (s.contains("schedules") && !wantErr && wantLen <= 200000) for (auto& sc : s["schedules"]) { std::vector<long> v; std::string nm = "sched"; for (auto& c : sc) { v.push_back(c.get<long>()); nm += "." + std::to_string(c.get<long>()); } scheds.push_back(v); schedNames.push_back(nm); }
		for (std::size_t k = 0; k < scheds.size(); ++k) modes.push_back({schedNames[k].c_str(), -2 - (long)k});
		for (const Mode& md : modes) { const std::string msite = site + "/" + md.name; Proto::sanitize(Proto::g_site, sizeof Proto::g_site, msite);
			unsigned long a = 1, b = 0; unsigned long long n = 0; bool err = false;
			Archive::HuffLZ z(Archive::BitStreamReader(in.data(), in.size())); std::vector<char> buf(20000); std::mt19937_64 rng(Proto::g_seed + len);
			auto fold = [&](const char* p, std::size_t c) { for (std::size_t i = 0; i < c; ++i) { a = (a + (unsigned char)p[i]) % 65521; b = (b + a) % 65521; } n += c; };
			const std::vector<long>* sched = md.size <= -2 ? &scheds[(std::size_t)(-2 - md.size)] : nullptr; std::size_t step = 0;
			try { for (;;) { std::size_t c = 0; const long call = sched ? (*sched)[step++ % sched->size()] : -1; bool ibuf = sched ? call == 0 : (md.size == 0 || (md.size < 0 && rng() % 3 == 0));
					if (ibuf) { const char* p = z.GetInternalBuffer(&c); fold(p, c); if (c == 0) break; } else { std::size_t want = sched ? (std::size_t)call : md.size > 0 ? (std::size_t)md.size : 1 + rng() % 4999; c = z.GetData(buf.data(), want); fold(buf.data(), c); if (c < want) break; }
					if (n > wantLen + 100000) break; } }
			catch (const std::exception&) { err = true; }
			auto note = [&] { return where(kind + "[" + std::to_string(len) + "] drained by " + md.name + ": delivered " + std::to_string(n) + " bytes, want " + std::to_string(wantLen) + (wantErr ? " then an error" : "")); };
			if (err != wantErr) { Proto::mismatch(msite, err ? "refused-should-accept" : "accepted-should-refuse", note()); return false; }
			if (!err && (n != wantLen || a != s["a"].get<unsigned long>() || b != s["b"].get<unsigned long>())) { Proto::mismatch(msite, "bytes", note()); return false; }
			if (err && n > wantLen) { Proto::mismatch(msite, "bytes-beyond-capacity", note()); return false; } }      // what was delivered before the error is a prefix of the reference output
		return true; }
	// ---- C04: a run of `count` equal literals, encoded with the real tree, across the capacity of the tree's counters ---------------
	if (op == "lzh_literal_run") { const unsigned sym = s["sym"]; const std::size_t count = s["count"]; Proto::watchdog(120); std::size_t padCodes = 0;
		std::vector<unsigned char> in; unsigned acc = 0; int nb = 0; { Archive::AdaptiveHuffmanTree enc(314);
			for (std::size_t k = 0; k < count; ++k) { unsigned bc = 0; unsigned bits = enc.GetEncodedBitString((unsigned short)sym, bc); for (unsigned i = 0; i < bc; ++i) { acc = (acc << 1) | ((bits >> i) & 1); if (++nb == 8) { in.push_back((unsigned char)acc); acc = 0; nb = 0; } }
				try { enc.UpdateCodeCount((unsigned short)sym); } catch (const std::exception&) { /* the encoder side hits the same capacity; the remaining codes keep the last path */ } }
			// pad the last byte with the bits of this symbol's own code so that the padding decodes to the same literal (or ends the stream)
			unsigned bc = 0; unsigned bits = enc.GetEncodedBitString((unsigned short)sym, bc);
			if (bc != 1) { Proto::mismatch(site, "harness-assumption", where("the literal's code is not one bit long at the end of the run")); return false; }
			while (nb != 0) { acc = (acc << 1) | (bits & 1); ++padCodes; if (++nb == 8) { in.push_back((unsigned char)acc); nb = 0; } } }
		const std::size_t wantDelivered = s["outcomes"][padCodes]["delivered"]; const bool wantErr = s["outcomes"][padCodes]["err"];
		Archive::HuffLZ z(Archive::BitStreamReader(in.data(), in.size())); std::vector<char> buf(4096); std::size_t n = 0; bool err = false, wrongByte = false;
		try { for (;;) { std::size_t c = z.GetData(buf.data(), 4096); for (std::size_t i = 0; i < c; ++i) if ((unsigned char)buf[i] != sym && n + i < wantDelivered) wrongByte = true; n += c; if (c < 4096) break; } } catch (const std::exception&) { err = true; }
		auto note = [&] { return where("symbol " + std::to_string(sym) + " x " + std::to_string(count) + ": delivered " + std::to_string(n) + (err ? " then an error" : " without error")); };
		if (wrongByte) { Proto::mismatch(site, "bytes", note()); return false; }
		if (err != wantErr) { Proto::mismatch(site, err ? "refused-should-accept" : "accepted-should-refuse", note()); return false; }
		if (wantErr ? n > wantDelivered : n < wantDelivered) { Proto::mismatch(site, "count", note()); return false; }
		return true; }
	// ---- the bit cursor under the decoder (spec/BitReader.tla): every walk of bit / byte reads to the stated depth -------------------
	if (op == "bit_walk") { std::vector<unsigned char> in; for (auto& b : s["input"]) in.push_back((unsigned char)b.get<int>()); unsigned char dummy = 0;
		Archive::BitStreamReader r(in.empty() ? &dummy : in.data(), in.size()); const std::size_t nbits = in.size() * 8; int k = 0;
		if (r.EndOfStream() != (nbits == 0) || r.GetBitReadPos() != 0) { Proto::mismatch(site, "initial-state", where("")); return false; }
		for (auto& c : s["calls"]) { ++k; const bool bit = c["op"] == "bit"; int out = bit ? (r.ReadNextBit() ? 1 : 0) : r.ReadNext8Bits();
			auto note = [&] { return where("call " + std::to_string(k) + " " + c.dump() + " returned " + std::to_string(out) + " position " + std::to_string(r.GetBitReadPos()) + " eos " + std::to_string(r.EndOfStream())); };
			if (out != c["out"].get<int>()) { Proto::mismatch(site + (bit ? "/ReadNextBit" : "/ReadNext8Bits"), "value", note()); return false; }
			if (r.EndOfStream() != c["eos"].get<bool>()) { Proto::mismatch(site + "/EndOfStream", "value", note()); return false; }
			// the exact cursor value is pinned only while it is inside the input; past the end it need only stay past the end
			const std::size_t want = c["pos"]; if (want <= nbits ? r.GetBitReadPos() != want : r.GetBitReadPos() < nbits) { Proto::mismatch(site + "/GetBitReadPos", "value", note()); return false; } }
		return true; }
	OPS_EPILOGUE }
