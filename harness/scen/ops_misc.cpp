// Scenario steps on the resource manager, string/path helpers and bit helpers (C17, C19).
#include "ops.hpp"
#include <random>

bool ops_misc(Ctx& c, const json& s, int idx, bool& handled) {
	OPS_PROLOGUE
	if (op == "resmgr") { const std::string root = ROOT + "/root", src = ROOT + "/src"; fs::create_directories(root + "/sub"); fs::create_directories(root + "/dir.vol"); fs::create_directories(root + "/dir.clm"); fs::create_directories(src);
		auto content = [&](long id) { std::vector<unsigned char> b; for (int j = 0; j < 6 + id % 5; ++j) b.push_back(Scen::blob_byte(id, j)); return b; };
		for (auto& f : s["loose"]) Scen::spit(root + "/" + Scen::str(f["name"]), content(f["blob"]));
		int vi = 0; for (auto& a : s["vols"]) { std::vector<std::string> in; std::string d = src + "/v" + std::to_string(vi++); for (auto& m : a["members"]) { Scen::spit(d + "/" + Scen::str(m["name"]), content(m["blob"])); in.push_back(d + "/" + Scen::str(m["name"])); } Archive::VolFile::CreateArchive(root + "/" + Scen::str(a["file"]), in); }
		auto le = [](std::vector<unsigned char>& o, uint32_t v, int n) { for (int i = 0; i < n; ++i) o.push_back((unsigned char)(v >> (8 * i))); };
		for (auto& a : s["clms"]) { std::vector<std::string> in; for (auto& m : a["members"]) { auto data = content(m["blob"]); std::vector<unsigned char> w; auto tag = [&](const char* t) { w.insert(w.end(), t, t + 4); }; tag("RIFF"); le(w, 36 + (uint32_t)data.size(), 4); tag("WAVE"); tag("fmt "); le(w, 16, 4); le(w, 1, 2); le(w, 1, 2); le(w, 22050, 4); le(w, 44100, 4); le(w, 2, 2); le(w, 16, 2); tag("data"); le(w, (uint32_t)data.size(), 4); w.insert(w.end(), data.begin(), data.end());
				std::string p = src + "/" + Scen::str(m["name"]) + ".wav"; Scen::spit(p, w); in.push_back(p); } Archive::ClmFile::CreateArchive(root + "/" + Scen::str(a["file"]), in); }
		if (s.contains("badRoots")) for (auto& b : s["badRoots"]) { const std::string br = root + "/" + Scen::str(b); if (!throws([&] { ResourceManager bad(br); })) { Proto::mismatch(site + "/construct", "accepted-should-refuse", where(br)); return false; } }
		ResourceManager rm(root); auto loaded = rm.GetArchiveFilenames();
		// the load order is an input: pick the specification's answers for the order the implementation reports
		const json* ans = nullptr; for (auto& A : s["answers"]) { bool same = A["order"].size() == loaded.size(); for (std::size_t i = 0; same && i < loaded.size(); ++i) same = fs::path(loaded[i]).filename().string() == Scen::str(A["order"][i]); if (same) { ans = &A; break; } }
		if (!ans) { std::string l; for (auto& x : loaded) l += x + " "; Proto::mismatch(site + "/load", "order", where("loaded: " + l)); return false; }
		for (std::size_t q = 0; q < s["queries"].size(); ++q) { const std::string name = Scen::str(s["queries"][q]); const json& R = (*ans)["res"][q];
			for (int arch = 1; arch >= 0; --arch) { const json& want = arch ? R["withArch"] : R["noArch"]; std::string kind; std::vector<unsigned char> got;
				try { auto st = rm.GetResourceStream(name, arch != 0); if (!st) kind = "none"; else { kind = "bytes"; got = drain(*st); } } catch (const std::exception&) { kind = "refused"; }
				if (kind != want["kind"].get<std::string>()) { Proto::mismatch(site + "/GetResourceStream", "kind", where(name + " archives=" + std::to_string(arch) + " -> " + kind + " want " + want["kind"].get<std::string>())); return false; }
				if (kind == "bytes" && got != content(want["blob"])) { Proto::mismatch(site + "/GetResourceStream", "bytes", where(name + " archives=" + std::to_string(arch) + " delivers the wrong source, want blob " + want["blob"].dump())); return false; } }
			const std::string cont = Scen::str(R["containing"]); if (cont != "?") { std::string got = rm.FindContainingArchivePath(name); if ((got.empty() ? std::string() : fs::path(got).filename().string()) != cont) { Proto::mismatch(site + "/FindContainingArchivePath", "value", where(name + " -> " + got + " want " + cont)); return false; } } }
		auto cmpList = [&](std::vector<std::string> got, const json& want, const std::string& what, const std::string& note = "") { std::vector<std::string> w; for (auto& x : want) w.push_back(Scen::str(x)); std::sort(got.begin(), got.end()); std::sort(w.begin(), w.end()); if (got != w) { std::string g; for (auto& x : got) g += x + " "; std::string ww; for (auto& x : w) ww += x + " "; Proto::mismatch(site + "/" + what, "listing", where(note + " got [" + g + "] want [" + ww + "]")); return false; } return true; };
		// pattern listings: the structured pattern becomes an (unanchored / anchored) regular expression on the file name
		for (std::size_t pi = 0; pi < s["patterns"].size(); ++pi) { const json& pt = s["patterns"][pi]; std::string text; for (char ch : Scen::str(pt["text"])) { if (ch == '.') text += "[.]"; else text.push_back(ch); }
			const std::string kind = pt["kind"]; const std::string rx = kind == "prefix" ? "^" + text : kind == "suffix" ? text + "$" : kind == "contains" ? text : "^" + text + "$";
			if (!cmpList(rm.GetAllFilenames(rx, true), (*ans)["pats"][pi]["withArch"], "GetAllFilenames", "pattern " + rx)) return false;
			if (!cmpList(rm.GetAllFilenames(rx, false), (*ans)["pats"][pi]["noArch"], "GetAllFilenames", "pattern " + rx + " loose only")) return false; }
		for (std::size_t ti = 0; ti < s["types"].size(); ++ti) { const std::string ext = Scen::str(s["types"][ti]);
			if (!cmpList(rm.GetAllFilenamesOfType(ext, true), (*ans)["types"][ti]["withArch"], "GetAllFilenamesOfType", "extension '" + ext + "'")) return false;
			if (!cmpList(rm.GetAllFilenamesOfType(ext, false), (*ans)["types"][ti]["noArch"], "GetAllFilenamesOfType", "extension '" + ext + "' loose only")) return false; }
		if (!cmpList(rm.GetAllFilenamesOfType(".txt"), (*ans)["txt"], "GetAllFilenamesOfType")) return false; if (!cmpList(rm.GetAllFilenamesOfType(".txt", false), (*ans)["txtLoose"], "GetAllFilenamesOfType")) return false; if (!cmpList(rm.GetAllFilenamesOfType(".map"), (*ans)["map"], "GetAllFilenamesOfType")) return false;
		return true; }
	// ---- beyond the listed properties: the lexical model of the path helpers (spec/XPaths.tla) and the list helpers of StringUtility --------
	if (op == "xpaths") { const std::string p = Scen::str(s["path"]);
		static const bool tsFlavour = XFile::GetFileExtension(".h") == ".h";       // which path library the code was built against (see spec/XPaths.tla)
		if (s["ts"].get<bool>() != tsFlavour) return true;
		auto chk = [&](const std::string& what, const std::string& got, const json& want) { if (got != Scen::str(want)) { Proto::mismatch(site + "/" + what, "value", where("'" + p + "' -> '" + got + "' want '" + Scen::str(want) + "'")); return false; } return true; };
		auto guarded = [&](const std::string& what, const std::function<std::string()>& f, const json& want) { std::string got; try { got = f(); } catch (const std::exception& e) { Proto::mismatch(site + "/" + what, "refused-should-accept", where("'" + p + "': " + e.what())); return false; } return chk(what, got, want); };
		if (!guarded("GetFileExtension", [&] { return XFile::GetFileExtension(p); }, s["ext"])) return false;
		if (!guarded("GetFilename", [&] { return XFile::GetFilename(p); }, s["filename"])) return false;
		if (!guarded("GetDirectory", [&] { return XFile::GetDirectory(p); }, s["directory"])) return false;
		if (XFile::IsRootPath(p) != s["rooted"].get<bool>() || XFile::HasRootComponent(p) != s["rooted"].get<bool>()) { Proto::mismatch(site + "/IsRootPath", "value", where(p)); return false; }
		for (auto& c : s["replace"]) if (!guarded("ReplaceFilename", [&] { return XFile::ReplaceFilename(p, Scen::str(c["arg"])); }, c["v"])) return false;
		for (auto& c : s["appendName"]) if (!guarded("AppendToFilename", [&] { return XFile::AppendToFilename(p, Scen::str(c["arg"])); }, c["v"])) return false;
		for (auto& c : s["appendSub"]) if (!guarded("AppendSubDirectory", [&] { return XFile::AppendSubDirectory(p, Scen::str(c["arg"])); }, c["v"])) return false;
		for (auto& c : s["changeExt"]) if (!guarded("ChangeFileExtension", [&] { return XFile::ChangeFileExtension(p, Scen::str(c["arg"])); }, c["v"])) return false;
		for (auto& c : s["matches"]) if (XFile::ExtensionMatches(p, Scen::str(c["arg"])) != c["v"].get<bool>()) { Proto::mismatch(site + "/ExtensionMatches", "value", where("'" + p + "' against '" + Scen::str(c["arg"]) + "'")); return false; }
		for (auto& c : s["absolute"]) if (!guarded("MakeAbsolute", [&] { return XFile::MakeAbsolute(p, Scen::str(c["arg"])); }, c["v"])) return false;
		return true; }
	if (op == "xstrings") { std::vector<std::string> L, R, want; for (auto& x : s["list"]) L.push_back(Scen::str(x)); for (auto& x : s["removal"]) R.push_back(Scen::str(x)); for (auto& x : s["removed"]) want.push_back(Scen::str(x));
		const std::string needle = Scen::str(s["needle"]);
		if (StringUtility::RemoveStrings(L, R) != want) { Proto::mismatch(site + "/RemoveStrings", "value", where("")); return false; }
		if (StringUtility::ContainsStringCaseInsensitive(L, needle) != s["contains"].get<bool>()) { Proto::mismatch(site + "/ContainsStringCaseInsensitive", "value", where(needle)); return false; }
		if (StringUtility::ConvertToUpper(needle) != Scen::str(s["upper"])) { Proto::mismatch(site + "/ConvertToUpper", "value", where(needle)); return false; }
		{ std::string u = needle; StringUtility::ConvertToUpperInPlace(u); if (u != Scen::str(s["upper"])) { Proto::mismatch(site + "/ConvertToUpperInPlace", "value", where(needle)); return false; } }
		if (StringUtility::ContainsNonAsciiChars(needle) != s["nonAscii"].get<bool>()) { Proto::mismatch(site + "/ContainsNonAsciiChars", "value", where(needle)); return false; }
		// four-character tags: construction from a literal, comparison, conversion, concatenation, streaming
		{ const Tag t("ABCD"); std::ostringstream os; os << t; if (!(t == Tag("ABCD")) || t != Tag("ABCD") || t == Tag("ABCE") || !(t != Tag("abcd")) || static_cast<std::string>(t) != "ABCD" || ("x" + t) != "xABCD" || (std::string("y") + t) != "yABCD" || os.str() != "ABCD" || !(MakeTag("ABCD") == t))
			{ Proto::mismatch(site + "/Tag", "value", where("")); return false; } }
		if (StringUtility::StringFrom(true) != "true" && StringUtility::StringFrom(true) != "1") { Proto::mismatch(site + "/StringFrom", "value", where("")); return false; }
		return true; }
	if (op == "names_rel") { for (auto& p : s["pairs"]) { const std::string a = Scen::str(p["a"]), b = Scen::str(p["b"]); bool less = StringUtility::IsEqualCaseInsensitive(a, b), eq = StringUtility::IsEqual(a, b);
			if (less != p["less"].get<bool>()) { Proto::mismatch(site + "/comes-before", "value", where("'" + a + "' < '" + b + "' is " + std::to_string(less))); return false; }
			if (eq != p["eq"].get<bool>()) { Proto::mismatch(site + "/equal-ignoring-case", "value", where("'" + a + "' = '" + b + "' is " + std::to_string(eq))); return false; } } return true; }
	// ---- C19, pipeline V: record the observed path relations and helper results over a universe of strings ----------
	if (op == "path_laws") {
		std::vector<std::string> U; for (auto& u : s["universe"]) U.push_back(Scen::str(u));
		auto codes = [](const std::string& x) { return json(std::vector<int>(x.begin(), x.end())); };
		auto call = [&](auto f) -> json { try { return codes(f()); } catch (const std::exception&) { return json::array({-1}); } };   // a refusal is logged as [-1]
		logev({{"e", "Reset"}, {"scenario", CURSCN}});
		logev({{"e", "Universe"}, {"strs", s["universe"]}});
		const std::size_t n = U.size();
		for (std::size_t i = 0; i < n; ++i) {                       // the observed PathsAreEqual relation, one row per string
			std::vector<int> row; for (std::size_t j = 0; j < n; ++j) if (XFile::PathsAreEqual(U[i], U[j])) row.push_back((int)j + 1);
			logev({{"e", "EqRow"}, {"i", i + 1}, {"eq", row}});
			logev({{"e", "DotSlash"}, {"i", i + 1}, {"v", XFile::PathsAreEqual("./" + U[i], U[i])}}); }
		for (std::size_t i = 0; i < n; ++i) {                       // join then take the file name back
			json r = json::array(); for (std::size_t j = 0; j < n; ++j) r.push_back(call([&] { return XFile::GetFilename(XFile::Append(U[i], U[j])); }));
			logev({{"e", "JoinRow"}, {"d", i + 1}, {"r", r}}); }
		for (std::size_t i = 0; i < n; ++i) {                       // split and re-join
			json ev{{"e", "Split"}, {"i", i + 1}, {"eq", false}, {"threw", false}};
			try { std::string j = XFile::Append(XFile::GetDirectory(U[i]), XFile::GetFilename(U[i])); ev["eq"] = XFile::PathsAreEqual(j, U[i]); ev["joined"] = codes(j); }
			catch (const std::exception&) { ev["threw"] = true; }
			logev(ev); }
		for (auto& e : s["extensions"]) { const std::string ext = Scen::str(e["ext"]);    // replace the extension, match in every case variant
			for (std::size_t i = 0; i < n; ++i) { json v = json::array(); std::string changed; bool threw = false;
				try { changed = XFile::ChangeFileExtension(U[i], ext); for (auto& var : e["variants"]) v.push_back(XFile::ExtensionMatches(changed, Scen::str(var))); } catch (const std::exception&) { threw = true; v = json::array(); }
				logev({{"e", "ExtRow"}, {"f", i + 1}, {"ext", e["ext"]}, {"v", v}, {"threw", threw}}); } }
		return true; }
	// ---- C19, pipeline V: the comparator on seeded random longer strings (bytes >= 0x80 included): law instances on triples -----
	if (op == "cmp_random") { std::mt19937_64 rng(Proto::g_seed * 7919 + s["salt"].get<unsigned>()); long count = s["count"];
		logev({{"e", "Reset"}, {"scenario", CURSCN}});
		auto rnd = [&](const std::string& base) { std::string x = base; int edits = rng() % 3;        // related strings make equal/prefix cases likely
			if (base.empty() || rng() % 4 == 0) { x.clear(); int len = rng() % 12; for (int i = 0; i < len; ++i) { unsigned r = rng() % 10; x.push_back((char)(r < 5 ? "aAbBzZ_09."[rng() % 10] : r < 8 ? (rng() % 95 + 32) : (rng() % 128 + 128))); } return x; }
			for (int k = 0; k < edits && !x.empty(); ++k) { std::size_t p = rng() % x.size(); unsigned r = rng() % 4; if (r == 0) x[p] = (char)(isalpha((unsigned char)x[p]) ? x[p] ^ 0x20 : x[p]); else if (r == 1) x.resize(p); else if (r == 2) x.push_back((char)(rng() % 256)); else x[p] = (char)(rng() % 256); }
			return x; };
		for (long k = 0; k < count; ++k) { std::string t[3]; t[0] = rnd(""); t[1] = rnd(t[0]); t[2] = rnd(rng() % 2 ? t[1] : t[0]);
			json less = json::array(), eq = json::array();
			for (int i = 0; i < 3; ++i) { json lr = json::array(), er = json::array(); for (int j = 0; j < 3; ++j) { lr.push_back(StringUtility::IsEqualCaseInsensitive(t[i], t[j])); er.push_back(StringUtility::IsEqual(t[i], t[j])); } less.push_back(lr); eq.push_back(er); }
			// the folded byte sequences let the specification recompute case-insensitive equality itself
			json strs = json::array(); for (auto& x : t) { std::vector<int> c; for (unsigned char ch : x) c.push_back(ch); strs.push_back(c); }
			logev({{"e", "Cmp3"}, {"s", strs}, {"less", less}, {"eq", eq}}); }
		return true; }
	// ---- C14 (c) / C20: size-prefixed container writes and reads -----------------------------------------------------
	if (op == "prefixed_write") { const std::string T = s["prefix"]; std::size_t n = s["count"]; const bool wantOk = s["expect"] == "ok";
		std::vector<unsigned char> v(n); for (std::size_t j = 0; j < n; ++j) v[j] = Scen::blob_byte(7, j);
		Stream::DynamicMemoryWriter w; const unsigned char pre[3] = {0xAA, 0xBB, 0xCC}; w.Write(pre, 3);        // something already written must survive a refusal
		bool refused = throws([&] { if (T == "u8") w.Write<uint8_t>(v); else if (T == "i8") w.Write<int8_t>(v); else if (T == "u16") w.Write<uint16_t>(v); else if (T == "i16") w.Write<int16_t>(v); else if (T == "u32") w.Write<uint32_t>(v); else w.Write<int32_t>(v); });
		if (refused == wantOk) { Proto::mismatch(site + "/" + T, refused ? "refused-should-accept" : "accepted-should-refuse", where("count " + std::to_string(n))); return false; }
		auto got = dyn_bytes(w); std::vector<unsigned char> want(pre, pre + 3); if (wantOk) { auto e = Scen::expand(s["segs"]); want.insert(want.end(), e.begin(), e.end()); }
		if (got != want) { Proto::mismatch(site + "/" + T, wantOk ? "bytes" : "state-after-failure", where("count " + std::to_string(n) + " " + Scen::hexdiff(got, want))); return false; }
		if (wantOk) { Stream::MemoryReader r(got.data(), got.size()); r.SeekForward(3); std::vector<unsigned char> back{1, 2, 3};        // typed read is the inverse of the typed write
			bool rr = throws([&] { if (T == "u8") r.Read<uint8_t>(back); else if (T == "i8") r.Read<int8_t>(back); else if (T == "u16") r.Read<uint16_t>(back); else if (T == "i16") r.Read<int16_t>(back); else if (T == "u32") r.Read<uint32_t>(back); else r.Read<int32_t>(back); });
			if (rr || back != v || r.Position() != got.size()) { Proto::mismatch(site + "/" + T, "read-back", where("count " + std::to_string(n))); return false; } }
		return true; }
	// ---- C14 (d): Writer::Write(Reader&) copies exactly the rest of the source, for every chunk size, length, start and backend ----
	if (op == "copy_loop" || op == "copy_big") { const bool big = op == "copy_big"; std::size_t len = s["len"], start = s["start"]; std::size_t chunk = big ? 0x20000 : s["chunk"].get<std::size_t>();
		std::vector<unsigned char> src(len); for (std::size_t j = 0; j < len; ++j) src[j] = Scen::blob_byte(3, j);
		std::vector<unsigned char> want; if (big) want = Scen::expand(s["segs"]); else for (auto& d : s["dest"]) want.push_back(src[d.get<std::size_t>() - 1]);
		const std::string file = ROOT + "/src.bin"; Scen::spit(file, src);
		// a wrapper that counts the partial reads the loop performs (the specification fixes their number)
		struct Counting : Stream::Reader { Stream::Reader& in; long calls = 0; explicit Counting(Stream::Reader& r) : in(r) {} std::size_t ReadPartial(void* b, std::size_t n) noexcept override { ++calls; return in.ReadPartial(b, n); } void ReadImplementation(void* b, std::size_t n) override { in.Read(b, n); } };
		auto copy = [&](Stream::Writer& w, Stream::Reader& r) { switch (chunk) { case 1: w.Write<1>(r); break; case 2: w.Write<2>(r); break; case 3: w.Write<3>(r); break; case 4: w.Write<4>(r); break; default: w.Write(r); } };
		for (const std::string backend : {"mem", "memslice", "file", "fileslice", "sliceofslice"}) { const std::string bsite = site + "/" + backend; Proto::sanitize(Proto::g_site, sizeof Proto::g_site, bsite);
			std::vector<unsigned char> padded; std::unique_ptr<Stream::BidirectionalReader> r;
			if (backend == "mem") r = std::make_unique<Stream::MemoryReader>(src.data(), src.size());
			else if (backend == "memslice") { padded.assign(3, 0xEE); padded.insert(padded.end(), src.begin(), src.end()); padded.insert(padded.end(), 5, 0xDD); Stream::MemoryReader outer(padded.data(), padded.size()); r = std::make_unique<Stream::MemoryReader>(outer.Slice(3, len)); }
			else if (backend == "file") r = std::make_unique<Stream::FileReader>(file);
			else { padded.assign(3, 0xEE); padded.insert(padded.end(), src.begin(), src.end()); padded.insert(padded.end(), 5, 0xDD); Scen::spit(ROOT + "/padded.bin", padded); Stream::FileReader outer(ROOT + "/padded.bin");
				if (backend == "fileslice") r = std::make_unique<Stream::FileSliceReader>(outer.Slice(3, len)); else { auto mid = outer.Slice(1, len + 4); r = std::make_unique<Stream::FileSliceReader>(mid.Slice(2, len)); } }
			r->Seek(start); Counting counted(*r); Stream::DynamicMemoryWriter w;
			if (throws([&] { copy(w, counted); })) { Proto::mismatch(bsite, "refused-should-accept", where("")); return false; }
			auto got = dyn_bytes(w); if (got != want) { Proto::mismatch(bsite, "bytes", where("len " + std::to_string(len) + " chunk " + std::to_string(chunk) + " start " + std::to_string(start) + " " + Scen::hexdiff(got, want))); return false; }
			if (r->Position() != len) { Proto::mismatch(bsite, "source-position", where("position " + std::to_string((long long)r->Position()) + " want " + std::to_string(len))); return false; }
			if (!big && counted.calls != s["reads"].get<long>()) { Proto::mismatch(bsite, "read-count", where(std::to_string(counted.calls) + " partial reads, want " + s["reads"].dump())); return false; }
			// the same copy into a file writer leaves exactly those bytes on disk
			if (backend == "mem" || big) { r->Seek(start); { Stream::FileWriter fw(ROOT + "/dst.bin"); copy(fw, *r); } if (Scen::slurp(ROOT + "/dst.bin") != want) { Proto::mismatch(bsite, "file-bytes", where("")); return false; } } }
		return true; }
	// ---- C14 (e): FileWriter creates, refuses, truncates, or preserves and appends exactly as its open flags say -----------------------
	if (op == "file_open") { const std::string state = s["state"]; const int flags = s["flags"]; const int k = s["writes"]; const bool wantRefused = s["expect"] == "refused";
		std::string path = ROOT + "/f.bin"; auto old = raw(s["old"]);
		if (state == "file") Scen::spit(path, old); else if (state == "dir") fs::create_directories(path); else if (state == "noparent") path = ROOT + "/missing/f.bin";
		const std::string fsite = site + "/" + state; Proto::sanitize(Proto::g_site, sizeof Proto::g_site, fsite);
		bool refused = false;
		try { Stream::FileWriter w(path, static_cast<Stream::FileWriter::OpenMode>(flags)); for (int i = 1; i <= k; ++i) { unsigned char c[2] = {(unsigned char)(100 + 2 * i - 1), (unsigned char)(100 + 2 * i)}; w.Write(c, 2); } }
		catch (const std::exception&) { refused = true; }
		auto note = [&] { return where("state " + state + " flags " + std::to_string(flags) + " writes " + std::to_string(k)); };
		if (refused != wantRefused) { Proto::mismatch(fsite, refused ? "refused-should-accept" : "accepted-should-refuse", note()); return false; }
		if (state == "dir") { if (!fs::is_directory(path)) { Proto::mismatch(fsite, "directory-altered", note()); return false; } return true; }
		if (s.contains("parentAfter") && state == "noparent" && fs::exists(ROOT + "/missing") != s["parentAfter"].get<bool>()) { Proto::mismatch(fsite, refused ? "refused-open-created-the-directory" : "directory-not-created", note()); return false; }
		const bool exists = fs::is_regular_file(path);
		if (exists != s["existsAfter"].get<bool>()) { Proto::mismatch(fsite, refused ? "refused-open-created-or-removed-the-file" : "not-created", note()); return false; }
		if (exists && !s["unspecified"].get<bool>()) { auto got = Scen::slurp(path), want = raw(s["final"]); if (got != want) { Proto::mismatch(fsite, refused ? "refused-open-altered-the-file" : "content", note() + " " + Scen::hexdiff(got, want)); return false; } }
		return true; }
	// ---- C12: size-prefixed container reads on streams long enough for a wrapped negative count to be satisfiable ----------------------
	if (op == "prefixed_read") { const std::string T = s["prefix"]; auto img = Scen::expand(s["segs"]); const bool wantOk = s["expect"] == "ok";
		for (const std::string backend : {"mem", "memslice", "fileslice"}) { const std::string bsite = site + "/" + T + "/" + backend; Proto::sanitize(Proto::g_site, sizeof Proto::g_site, bsite);
			std::vector<unsigned char> padded(2, 0xEE); padded.insert(padded.end(), img.begin(), img.end()); padded.push_back(0xDD); std::unique_ptr<Stream::BidirectionalReader> r;
			if (backend == "mem") r = std::make_unique<Stream::MemoryReader>(img.data(), img.size());
			else if (backend == "memslice") { Stream::MemoryReader outer(padded.data(), padded.size()); r = std::make_unique<Stream::MemoryReader>(outer.Slice(2, img.size())); }
			else { Scen::spit(ROOT + "/p.bin", padded); Stream::FileReader outer(ROOT + "/p.bin"); r = std::make_unique<Stream::FileSliceReader>(outer.Slice(2, img.size())); }
			std::vector<unsigned char> got{7, 7, 7}; bool err = throws([&] { if (T == "i8") r->Read<int8_t>(got); else r->Read<int16_t>(got); });
			auto note = [&] { return where(T + " prefix over " + std::to_string(img.size()) + " bytes: " + (err ? "refused" : "delivered " + std::to_string(got.size()) + " elements") + ", position " + std::to_string((long long)r->Position())); };
			if (err == wantOk) { Proto::mismatch(bsite, err ? "refused-should-accept" : "accepted-should-refuse", note()); return false; }
			if (!err) { std::size_t w = T == "i8" ? 1 : 2, n = s["count"]; if (got.size() != n || !std::equal(got.begin(), got.end(), img.begin() + w) || r->Position() != s["consumed"].get<unsigned long long>()) { Proto::mismatch(bsite, "bytes", note()); return false; } }
			else if (r->Position() > r->Length()) { Proto::mismatch(bsite, "state-after-failure", note()); return false; } }
		return true; }
	// ---- C14 (c): typed writes of fixed-size values / containers produce the little-endian bytes of the specification and are inverted by the typed reads ----
	if (op == "typed_roundtrip") { const int w = s["width"]; std::vector<unsigned long long> vals; for (auto& v : s["values"]) vals.push_back(v.get<unsigned long long>()); auto want = Scen::expand(s["segs"]);
		auto run = [&](auto tag) -> bool { using T = decltype(tag); std::vector<T> in; for (auto v : vals) in.push_back((T)v);
			Stream::DynamicMemoryWriter w1; for (T v : in) w1.Write(v); Stream::DynamicMemoryWriter w2; w2.Write(in);            // one by one, and as a container
			auto b1 = dyn_bytes(w1), b2 = dyn_bytes(w2); if (b1 != want || b2 != want) { Proto::mismatch(site, "bytes", where("width " + std::to_string(w) + " " + Scen::hexdiff(b1 != want ? b1 : b2, want))); return false; }
			std::vector<unsigned char> fixedBuf(want.size() + 4, 0xEE); Stream::MemoryWriter mw(fixedBuf.data() + 2, want.size()); mw.Write(in); if (!std::equal(want.begin(), want.end(), fixedBuf.begin() + 2) || fixedBuf[0] != 0xEE || fixedBuf[1] != 0xEE || fixedBuf[want.size() + 2] != 0xEE) { Proto::mismatch(site, "fixed-buffer", where("")); return false; }
			Stream::MemoryReader r(want.data(), want.size()); std::vector<T> back(in.size()); r.Read(back); if (back != in || r.Position() != want.size()) { Proto::mismatch(site, "read-back", where("container")); return false; }
			Stream::MemoryReader r2(want.data(), want.size()); for (T v : in) { T x; r2.Read(x); if (x != v) { Proto::mismatch(site, "read-back", where("value")); return false; } } return true; };
		// strings of the same character width go through Reader::Read(basic_string&): the encoded size is size() * sizeof(CharT)
		auto runStr = [&](auto tag) -> bool { using C = decltype(tag); std::basic_string<C> in; for (auto v : vals) in.push_back((C)v);
			Stream::DynamicMemoryWriter w1; w1.Write(in); if (dyn_bytes(w1) != want) { Proto::mismatch(site + "/string", "bytes", where("width " + std::to_string(w))); return false; }
			Stream::MemoryReader r(want.data(), want.size()); std::basic_string<C> back(in.size(), C{}); r.Read(back); if (back != in || r.Position() != want.size()) { Proto::mismatch(site + "/string", "read-back", where("width " + std::to_string(w) + ": consumed " + std::to_string((long long)r.Position()) + " of " + std::to_string(want.size()) + " bytes")); return false; }
			Stream::DynamicMemoryWriter w2; w2.Write<uint8_t>(in); auto pb = dyn_bytes(w2); Stream::MemoryReader r2(pb.data(), pb.size()); std::basic_string<C> back2; r2.Read<uint8_t>(back2); if (back2 != in || r2.Position() != pb.size() || pb.size() != want.size() + 1) { Proto::mismatch(site + "/string", "read-back", where("size-prefixed, width " + std::to_string(w))); return false; }
			if (!want.empty()) { Stream::MemoryReader shortR(want.data(), want.size() - 1); std::basic_string<C> b3(in.size(), C{}); if (!throws([&] { shortR.Read(b3); })) { Proto::mismatch(site + "/string", "accepted-should-refuse", where("one byte short of the encoded size, width " + std::to_string(w))); return false; } if (shortR.Position() != 0) { Proto::mismatch(site + "/string", "state-after-failure", where("")); return false; } }
			return true; };
		if (!(w == 1 ? run(uint8_t{}) : w == 2 ? run(uint16_t{}) : run(uint32_t{}))) return false;
		return w == 1 ? runStr(char{}) : w == 2 ? runStr(char16_t{}) : runStr(char32_t{}); }
	OPS_EPILOGUE }
