// Scenario steps on maps and saved games (C06, C07, C16).
#include "ops.hpp"
static std::vector<unsigned char> map_bytes(const Map& m) { if (via(2) == 1) { const std::string p = via_path("via_out.map"); m.Write(p); return Scen::slurp(p); } Stream::DynamicMemoryWriter w; m.Write(w); return dyn_bytes(w); }
static Map map_from(const std::vector<unsigned char>& b) { switch (via(3)) { case 1: return Map::ReadMap(Stream::MemoryReader(b.data(), b.size()));
	case 2: { const std::string p = via_path("via_in.map"); Scen::spit(p, b); return Map::ReadMap(p); } default: { Stream::MemoryReader r(b.data(), b.size()); return Map::ReadMap(r); } } }
static Map save_from(const std::vector<unsigned char>& b) { switch (via(3)) { case 1: return Map::ReadSavedGame(Stream::MemoryReader(b.data(), b.size()));
	case 2: { const std::string p = via_path("via_in.op2"); Scen::spit(p, b); return Map::ReadSavedGame(p); } default: { Stream::MemoryReader r(b.data(), b.size()); return Map::ReadSavedGame(r); } } }
bool ops_map(Ctx& c, const json& s, int idx, bool& handled) {
	OPS_PROLOGUE
	if (op == "map_roundtrip") { auto in = Scen::expand(s["input"]), canon = Scen::expand(s["canon"]); Map m; if (throws([&] { m = map_from(in); })) { Proto::mismatch(site, "refused-should-accept", where("")); return false; }
		auto bad = [&](const std::string& what) { Proto::mismatch(site, "field", where(what)); return false; };
		if (m.WidthInTiles() != s["w"].get<uint32_t>()) return bad("width"); if (m.HeightInTiles() != s["h"].get<uint32_t>()) return bad("height"); if (m.GetVersionTag() != s["ver"].get<uint32_t>()) return bad("version");
		if (m.IsSavedGame() != s["saved"].get<bool>()) return bad("saved flag"); if (m.TileCount() != s["tiles"].get<std::size_t>()) return bad("tile count");
		if (m.tilesetSources.size() != s["nsrc"].get<std::size_t>() || m.tileMappings.size() != s["nmap"].get<std::size_t>() || m.terrainTypes.size() != s["nter"].get<std::size_t>() || m.tileGroups.size() != s["ngrp"].get<std::size_t>()) return bad("table sizes");
		// equality helpers of the parts: a map read twice has equal clip rectangles and tileset sources, != is the negation of ==
		{ Map m2 = map_from(in); if (!(m2.clipRect == m.clipRect) || (m2.clipRect != m.clipRect)) return bad("clip rectangle helpers");
			{ const Rect small{1, 2, 5, 9}; if (small.Width() != 4 || small.Height() != 7) return bad("Rect::Width / Height"); }       // (extents of the arbitrary rectangles a file may hold can exceed 32 bits: not asked for)
			Rect r2 = m.clipRect; r2.y2 ^= 1; if (r2 == m.clipRect || !(r2 != m.clipRect)) return bad("clip rectangles differing in one field compare equal");
			for (std::size_t i = 0; i < m.tilesetSources.size(); ++i) { if (!(m2.tilesetSources[i] == m.tilesetSources[i]) || (m2.tilesetSources[i] != m.tilesetSources[i])) return bad("tileset source equality");
				TilesetSource t = m.tilesetSources[i]; t.numTiles += 1; if (t == m.tilesetSources[i] || !(t != m.tilesetSources[i])) return bad("tileset sources differing in the tile count compare equal");
				t = m.tilesetSources[i]; t.tilesetFilename += "x"; if (t == m.tilesetSources[i] || !(t != m.tilesetSources[i])) return bad("tileset sources differing in the file name compare equal"); } }
		auto out1 = map_bytes(m); if (out1 != canon) { Proto::mismatch(site, "bytes", where("first write " + Scen::hexdiff(out1, canon))); return false; }
		Map m2; if (throws([&] { m2 = map_from(out1); })) { Proto::mismatch(site, "reread-refused", where("")); return false; } auto out2 = map_bytes(m2); if (out2 != out1) { Proto::mismatch(site, "not-byte-stable", where(Scen::hexdiff(out2, out1))); return false; }
		return true; }
	if (op == "map_edits") { Map m; auto in = Scen::expand(s["input"]); if (throws([&] { m = map_from(in); })) { Proto::mismatch(site, "refused-should-accept", where("")); return false; } int k = 0;
		for (auto& e : s["edits"]) { const std::string kind = e["k"]; bool refused = false; auto w2 = [&](const std::string& x) { return where("edit " + std::to_string(k + 1) + " " + e.dump() + " " + x); };
			if (kind == "cell") { refused = throws([&] { m.SetCellType(static_cast<CellType>(e["c"].get<int>()), e["x"].get<std::size_t>(), e["y"].get<std::size_t>()); }); }
			else if (kind == "lava") m.SetLavaPossible(e["v"].get<int>() != 0, e["x"].get<std::size_t>(), e["y"].get<std::size_t>()); else if (kind == "ver") m.SetVersionTag(e["v"].get<uint32_t>()); else m.TrimTilesetSources();
			if (refused != s["refused"][k].get<bool>()) { Proto::mismatch(site + "/" + kind, refused ? "refused-should-accept" : "accepted-should-refuse", w2("")); return false; }
			auto got = map_bytes(m), want = Scen::expand(s["after"][k]); if (got != want) { Proto::mismatch(site + "/" + kind, "bytes", w2(Scen::hexdiff(got, want))); return false; }
			// accessor pairs are faithful: what was set is what is read
			if (kind == "cell" && !refused && (int)m.GetCellType(e["x"].get<std::size_t>(), e["y"].get<std::size_t>()) != e["c"].get<int>()) { Proto::mismatch(site + "/cell", "getter", w2("GetCellType returns " + std::to_string((int)m.GetCellType(e["x"].get<std::size_t>(), e["y"].get<std::size_t>())))); return false; }
			if (kind == "lava" && m.GetLavaPossible(e["x"].get<std::size_t>(), e["y"].get<std::size_t>()) != (e["v"].get<int>() != 0)) { Proto::mismatch(site + "/lava", "getter", w2("")); return false; }
			if (kind == "ver" && m.GetVersionTag() != e["v"].get<uint32_t>()) { Proto::mismatch(site + "/ver", "getter", w2("")); return false; }
			++k; }
		return true; }
	if (op == "map_probe") { uint32_t lg = s["lg"], h = s["h"]; uint32_t w = 1u << lg; std::size_t n = (std::size_t)w * h;
		// image: tile i carries mapping index i % 2048, cell type i % 32 and lavaPossible = parity of i / 7, the remaining bits other patterns
		std::vector<unsigned char> img; auto le32 = [&](uint32_t v) { for (int i = 0; i < 4; ++i) img.push_back((unsigned char)(v >> (8 * i))); };
		le32(0x1011); le32(0); le32(lg); le32(h); le32(0); for (std::size_t i = 0; i < n; ++i) le32((uint32_t)(i % 32) | ((uint32_t)(i % 2048) << 5) | ((uint32_t)((i / 7) & 1) << 28)
			| ((uint32_t)((i * 37 + 11) % 2048) << 16) | ((uint32_t)((i / 3) & 1) << 27) | ((uint32_t)((i / 5) % 8) << 29));     // ... and every OTHER field (unit index, lava, wall, expansion, scorch) filled with its own pattern: an accessor reads its own bits only
		for (int i = 0; i < 16; ++i) img.push_back(0); for (char ch : std::string("TILE SET\x1a", 9)) img.push_back((unsigned char)ch); img.push_back(0); le32(2048); for (uint32_t k = 0; k < 2048; ++k) { auto le16 = [&](uint32_t v) { img.push_back((unsigned char)v); img.push_back((unsigned char)(v >> 8)); }; le16((k * 7 + 3) % 65536); le16((k * 13 + 1) % 65536); le16(0); le16(0); }
		le32(0); le32(0x1011); le32(0x1011); le32(0); le32(0);
		Map m; if (throws([&] { m = map_from(img); })) { Proto::mismatch(site, "refused-should-accept", where("")); return false; }
		if (m.WidthInTiles() != w || m.HeightInTiles() != h || m.TileCount() != n) { Proto::mismatch(site, "dimensions", where("")); return false; }
		for (auto& pr : s["probes"]) { std::size_t x = pr["x"], y = pr["y"], idx = pr["idx"];
			if (m.GetTileMappingIndex(x, y) != idx % 2048) { Proto::mismatch(site, "addressing", where("(" + std::to_string(x) + "," + std::to_string(y) + ") reads mapping " + std::to_string(m.GetTileMappingIndex(x, y)) + " want tile " + std::to_string(idx))); return false; }
			if ((std::size_t)(int)m.GetCellType(x, y) != idx % 32) { Proto::mismatch(site, "cell-type-read", where("(" + std::to_string(x) + "," + std::to_string(y) + ") reads " + std::to_string((int)m.GetCellType(x, y)) + " want " + std::to_string(idx % 32))); return false; }
			if (m.GetLavaPossible(x, y) != (((idx / 7) & 1) != 0)) { Proto::mismatch(site, "lava-read", where("")); return false; }
			if (m.GetTilesetIndex(x, y) != pr["ts"].get<std::size_t>() || m.GetImageIndex(x, y) != pr["img"].get<std::size_t>()) { Proto::mismatch(site, "mapping-entry", where("(" + std::to_string(x) + "," + std::to_string(y) + ") reports tileset " + std::to_string(m.GetTilesetIndex(x, y)) + " image " + std::to_string(m.GetImageIndex(x, y)) + ", the mapping entry of tile " + std::to_string(idx) + " says " + pr["ts"].dump() + " / " + pr["img"].dump())); return false; } }
		// monitor of the specification's Bijective invariant on the implementation: visiting every coordinate through a
		// setter must mark every tile exactly once
		if (n <= (1u << 18)) {
			Map z = map_from(img); for (auto& t : z.tiles) { t.bLavaPossible = 0; t.bLava = 0; }
			for (std::size_t y = 0; y < h; ++y) for (std::size_t x = 0; x < w; ++x) { if (z.GetLavaPossible(x, y)) { Proto::mismatch(site, "not-injective", where("(" + std::to_string(x) + "," + std::to_string(y) + ") addresses a tile already visited")); return false; } z.SetLavaPossible(true, x, y); }
			for (std::size_t i = 0; i < n; ++i) if (!z.tiles[i].bLavaPossible) { Proto::mismatch(site, "not-surjective", where("tile " + std::to_string(i) + " never addressed")); return false; } }
		return true; }
	if (op == "save_equiv") { auto sv = Scen::expand(s["save"]), mp = Scen::expand(s["map"]); Map a, b; Stream::MemoryReader rs(sv.data(), sv.size());
		if (throws([&] { a = Map::ReadSavedGame(rs); })) { Proto::mismatch(site, "refused-should-accept", where("saved game")); return false; } if (throws([&] { b = map_from(mp); })) { Proto::mismatch(site, "refused-should-accept", where("map")); return false; }
		if (rs.Position() != sv.size()) { Proto::mismatch(site, "consumed", where(std::to_string(rs.Position()) + " of " + std::to_string(sv.size()))); return false; }
		{ Map a2; if (throws([&] { a2 = save_from(sv); }) || map_bytes(a2) != map_bytes(a)) { Proto::mismatch(site, "entry-points-differ", where("saved game read through another entry point")); return false; } }
		// same dimensions, tiles, clip rectangle, sources, mappings, terrain types: compared through the map serialisation with the groups dropped
		a.tileGroups.clear(); b.tileGroups.clear(); if (map_bytes(a) != map_bytes(b)) { Proto::mismatch(site, "fields-differ", where(Scen::hexdiff(map_bytes(a), map_bytes(b)))); return false; } return true; }
	// ---- C07: a (truncated / corrupted) map or saved game: an ordinary error, or a self-consistent map ---------------------
	if (op == "robust_map") { const std::string fault = s["fault"], must = s["must"]; const bool save = s["kind"] == "save"; const std::string fsite = site + "/" + (save ? "save." : "map.") + fault;
		Proto::sanitize(Proto::g_site, sizeof Proto::g_site, fsite);
		auto img = Scen::expand(s["segs"]); Stream::MemoryReader r(img.data(), img.size()); Map m; bool err = false;
		try { m = save ? Map::ReadSavedGame(r) : Map::ReadMap(r); } catch (const std::exception&) { err = true; }
		if (must == "refuse" && !err) { Proto::mismatch(fsite, "accepted-should-refuse", where("a truncated file was read as a smaller success (" + std::to_string(img.size()) + " bytes)")); return false; }
		if (must == "refuse") { const std::string pth = via_path("prefix.bin"); Scen::spit(pth, img); bool fileErr = false;      // ... also when the same bytes are offered as a file
			try { if (save) (void)Map::ReadSavedGame(pth); else (void)Map::ReadMap(pth); } catch (const std::exception&) { fileErr = true; }
			if (!fileErr) { Proto::mismatch(fsite, "accepted-should-refuse", where("a truncated file was read as a smaller success from a FILE (" + std::to_string(img.size()) + " bytes)")); return false; } }
		if (must == "accept" && err) { Proto::mismatch(fsite, "refused-should-accept", where("")); return false; }
		if (!err) { const unsigned long long w = m.WidthInTiles(), h = m.HeightInTiles();
			if (w == 0 || (w & (w - 1)) != 0) { Proto::mismatch(fsite, "width-not-a-power-of-two", where("width " + std::to_string(w))); return false; }
			if ((unsigned long long)m.TileCount() != w * h) { Proto::mismatch(fsite, "tiles-not-width-times-height", where(std::to_string(m.TileCount()) + " tiles for " + std::to_string(w) + " x " + std::to_string(h))); return false; }
			// the returned object is usable: serialising it is an ordinary success or error
			if (m.TileCount() < (1u << 22)) { try { std::vector<unsigned char> out;
					// C06 on EVERY accepted map image, whatever the fault did to its layout: it can be written, the written length is the consumed length, and writing is byte-stable
					if (!save) { const std::string lsite = fsite + "/roundtrip-law"; const std::size_t consumed0 = (std::size_t)r.Position();
						try { out = map_bytes(m); } catch (const std::exception& e) { Proto::mismatch(lsite, "write-refused", where(std::string("the reader accepted the image, the writer refuses the map: ") + e.what())); return false; }
						if (out.size() != consumed0) { Proto::mismatch(lsite, "length", where("wrote " + std::to_string(out.size()) + " bytes for " + std::to_string(consumed0) + " consumed")); return false; }
						Map m3; if (throws([&] { m3 = map_from(out); }) || map_bytes(m3) != out) { Proto::mismatch(lsite, "not-byte-stable", where("")); return false; } }
					else out = map_bytes(m);
					// C06 on what the reader accepted: the written bytes are the consumed bytes, the saved-game word normalised and the undocumented word regenerated
					if (!save && s.contains("unkOff") && s["unkOff"].get<std::size_t>() > 0) { const std::size_t consumed = (std::size_t)r.Position(), fo = s["flagOff"], uo = s["unkOff"]; const std::string lsite = fsite + "/roundtrip-law";
						if (out.size() != consumed) { Proto::mismatch(lsite, "length", where("wrote " + std::to_string(out.size()) + " bytes for " + std::to_string(consumed) + " consumed")); return false; }
						for (std::size_t i = 0; i < consumed; ++i) { if ((i >= fo && i < fo + 4) || (i >= uo && i < uo + 4)) continue; if (out[i] != img[i]) { Proto::mismatch(lsite, "bytes", where("byte " + std::to_string(i) + ": wrote " + std::to_string(out[i]) + ", consumed " + std::to_string(img[i]))); return false; } }
						const bool flagged = img[fo] || img[fo + 1] || img[fo + 2] || img[fo + 3]; if (out[fo] != (flagged ? 1 : 0) || out[fo + 1] || out[fo + 2] || out[fo + 3]) { Proto::mismatch(lsite, "saved-flag-not-normalised", where("")); return false; }
						Map m2; if (throws([&] { m2 = map_from(out); }) || map_bytes(m2) != out) { Proto::mismatch(lsite, "not-byte-stable", where("")); return false; } }
				} catch (const std::exception&) { } } }
		return true; }
	OPS_EPILOGUE }
