// Shared declarations of the scenario interpreter (pipeline G, behaviour export).  The interpreter is split into one
// translation unit per subsystem so that the sanitizer build of the harness parallelises.
#pragma once
#include "../common/scen.hpp"
#include "Archive/VolFile.h"
#include "Archive/ClmFile.h"
#include "Bitmap/BitmapFile.h"
#include "Sprite/TilesetLoader.h"
#include "Sprite/ArtFile.h"
#include "Sprite/SpriteLoader.h"
#include "ResourceManager.h"
#include "StringUtility.h"
#include "XFile.h"
#include "BitTwiddle.h"
#include "Tag.h"
#include <sstream>
#include "Map/Map.h"
#include "Map/CellType.h"
#include "Stream/MemoryReader.h"
#include "Stream/MemoryWriter.h"
#include "Stream/DynamicMemoryWriter.h"
#include "Stream/FileWriter.h"
// (AdaptiveHuffmanTree.h has no include guard; it arrives through VolFile.h -> HuffLZ.h)
#include <memory>
#include <sys/resource.h>
#include <sys/wait.h>
#include <fcntl.h>
#include <set>
#include <algorithm>
#include <functional>
using namespace OP2Utility; using json = nlohmann::json; namespace fs = std::filesystem;
inline std::string ROOT, PROP, LOGPATH, CURSCN; inline std::ofstream LOGF; inline std::set<std::string> SKIP_SITES;
inline std::string P(const json& codes) { return ROOT + "/" + Scen::str(codes); }
struct Ctx { std::unique_ptr<Archive::VolFile> vol; std::unique_ptr<Archive::ClmFile> clm; Archive::ArchiveFile* arch() { return vol ? (Archive::ArchiveFile*)vol.get() : (Archive::ArchiveFile*)clm.get(); } };
template <class F> static bool throws(F f) { try { f(); return false; } catch (const std::exception&) { return true; } }
inline std::vector<unsigned char> drain(Stream::BidirectionalReader& r) { std::vector<unsigned char> out; unsigned char buf[7]; for (;;) { std::size_t n = r.ReadPartial(buf, sizeof buf); if (!n) break; out.insert(out.end(), buf, buf + n); if (out.size() > (1u << 26)) break; } return out; }
inline std::vector<unsigned char> raw(const json& a) { std::vector<unsigned char> b; for (auto& x : a) b.push_back((unsigned char)x.get<int>()); return b; }
inline std::vector<unsigned char> dyn_bytes(Stream::DynamicMemoryWriter& w) { auto r = w.GetReader(); std::vector<unsigned char> b(r.Length()); if (!b.empty()) r.Read(b.data(), b.size()); return b; }
// Every loader and saver has several entry points (a stream by reference, a temporary stream, a file path).  The specification speaks about
// byte strings, not about entry points: each scenario goes through one of them, chosen by a stable hash of the scenario's identity.
inline int via(int n) { unsigned h = 2166136261u; for (unsigned char ch : CURSCN) h = (h ^ ch) * 16777619u; return (int)((h >> 7) % (unsigned)n); }
inline std::string via_path(const char* name) { return ROOT + "/" + name; }
inline void logev(const json& e) { LOGF << e.dump() << "\n"; LOGF.flush(); }
// every ops_* function handles the steps of one subsystem; it sets handled = false when the step is not one of its own
// coverage builds (tools/coverage.py): a forked child that leaves through _exit() writes its counters first
extern "C" int __llvm_profile_write_file(void) __attribute__((weak));
static inline void flush_profile() { if (__llvm_profile_write_file) __llvm_profile_write_file(); }
#define OPS_PROLOGUE \
	handled = true; const std::string op = s["op"]; const std::string site = PROP + "." + op; \
	auto where = [&](const std::string& extra) { return CURSCN + " step " + std::to_string(idx) + " " + op + " " + extra; }; \
	Proto::sanitize(Proto::g_site, sizeof Proto::g_site, site); Proto::sanitize(Proto::g_detail, sizeof Proto::g_detail, where(""));
#define OPS_EPILOGUE handled = false; return true;
bool ops_archive(Ctx& c, const json& s, int idx, bool& handled);
bool ops_codec(Ctx& c, const json& s, int idx, bool& handled);
bool ops_map(Ctx& c, const json& s, int idx, bool& handled);
bool ops_image(Ctx& c, const json& s, int idx, bool& handled);
bool ops_misc(Ctx& c, const json& s, int idx, bool& handled);
