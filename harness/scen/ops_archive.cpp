// Scenario steps on the sandbox file system and on VOL / CLM archives (C01, C02, C03, C05, C17 lookups, C20 limits).
#include "ops.hpp"

bool ops_archive(Ctx& c, const json& s, int idx, bool& handled) {
	OPS_PROLOGUE
	if (op == "mkdir") { fs::create_directories(P(s["path"])); return true; }
	if (op == "put") { Scen::spit(P(s["path"]), Scen::expand(s["segs"])); return true; }
	if (op == "file_eq") { auto got = Scen::slurp(P(s["path"])), want = Scen::expand(s["segs"]); if (!fs::is_regular_file(P(s["path"]))) { Proto::mismatch(site, "missing", where(Scen::str(s["path"]))); return false; } if (got != want) { Proto::mismatch(site, "bytes", where(Scen::str(s["path"]) + " " + Scen::hexdiff(got, want))); return false; } return true; }
	if (op == "file_absent") { if (fs::exists(P(s["path"]))) { Proto::mismatch(site, "present", where(Scen::str(s["path"]))); return false; } return true; }
	if (op == "vol_create") { const bool rel = s.value("rel", false); if (rel) fs::current_path(ROOT);      // paths exactly as spelled, relative to the sandbox
		std::vector<std::string> in; for (auto& p : s["inputs"]) in.push_back(rel ? Scen::str(p) : P(p)); const std::string outPath = rel ? Scen::str(s["out"]) : P(s["out"]);
		bool refused = throws([&] { Archive::VolFile::CreateArchive(outPath, in); }); if (rel) fs::current_path("/"); bool want = s["expect"] == "refuse";
		if (refused != want) { Proto::mismatch(site, refused ? "refused-should-accept" : "accepted-should-refuse", where("")); return false; } return true; }
	if (op == "vol_open") { c.vol.reset(); bool err = throws([&] { c.vol = std::make_unique<Archive::VolFile>(P(s["path"])); }); if (err) { Proto::mismatch(site, "refused-should-accept", where("")); return false; }
		const json& L = s["listing"]; if (c.vol->GetCount() != L.size()) { Proto::mismatch(site, "count", where("count " + std::to_string(c.vol->GetCount()))); return false; }
		for (std::size_t i = 0; i < L.size(); ++i) { if (c.vol->GetName(i) != Scen::str(L[i]["name"])) { Proto::mismatch(site, "name", where("member " + std::to_string(i) + " is " + c.vol->GetName(i))); return false; }
			if (c.vol->GetSize(i) != L[i]["size"].get<uint32_t>()) { Proto::mismatch(site, "size", where("member " + std::to_string(i))); return false; }
			if ((int)c.vol->GetCompressionCode(i) != L[i]["kind"].get<int>()) { Proto::mismatch(site, "kind", where("member " + std::to_string(i))); return false; } }
		if (s.contains("fileLen") && c.vol->GetArchiveFileSize() != s["fileLen"].get<uint64_t>()) { Proto::mismatch(site, "archive-size", where(std::to_string(c.vol->GetArchiveFileSize()))); return false; }
		return true; }
	if (op == "vol_index") { const std::string n = Scen::str(s["name"]); long want = s["expect"]; long got = 9999; bool contains = c.arch()->Contains(n); try { got = (long)c.arch()->GetIndex(n); } catch (const std::exception&) { got = 9999; }
		if (got != want) { Proto::mismatch(site, "value", where(n + " -> " + std::to_string(got) + " want " + std::to_string(want))); return false; } if (contains != (want != 9999)) { Proto::mismatch(site, "contains-disagrees", where(n)); return false; } return true; }
	if (op == "vol_stream") { std::vector<unsigned char> got; bool err = throws([&] { auto r = s.contains("name") ? c.arch()->OpenStream(Scen::str(s["name"])) : c.arch()->OpenStream(s["i"].get<std::size_t>()); if (r->Length() != r->Length() || r->Position() != 0) throw std::logic_error("pos"); got = drain(*r); });
		bool want = s["expect"] == "err"; if (err != want) { Proto::mismatch(site, err ? "refused-should-accept" : "accepted-should-refuse", where("")); return false; }
		if (!err) { auto w = Scen::expand(s["segs"]); if (got != w) { Proto::mismatch(site, "bytes", where(Scen::hexdiff(got, w))); return false; } } return true; }
	if (op == "vol_extract" || op == "vol_extract_name") { std::string dest = P(s["dest"]); fs::create_directories(fs::path(dest).parent_path());
		bool err = throws([&] { if (op == "vol_extract") c.arch()->ExtractFile(s["i"].get<std::size_t>(), dest); else c.arch()->ExtractFile(Scen::str(s["name"]), dest); });
		if (err) { Proto::mismatch(site, "refused-should-accept", where("")); return false; } auto got = Scen::slurp(dest), w = Scen::expand(s["segs"]); if (got != w) { Proto::mismatch(site, "bytes", where(Scen::hexdiff(got, w))); return false; } return true; }
	if (op == "vol_extract_all") { std::string dir = P(s["dir"]); fs::create_directories(dir); if (throws([&] { c.arch()->ExtractAllFiles(dir); })) { Proto::mismatch(site, "refused-should-accept", where("")); return false; }
		for (std::size_t i = 0; i < c.arch()->GetCount(); ++i) { auto r = c.arch()->OpenStream(i); auto want = drain(*r); auto got = Scen::slurp(dir + "/" + c.arch()->GetName(i)); if (got != want) { Proto::mismatch(site, "bytes", where("member " + std::to_string(i))); return false; } } return true; }
	if (op == "vol_member_err") { std::size_t i = s["i"]; bool a = throws([&] { c.arch()->GetName(i); }), b = throws([&] { c.arch()->GetSize(i); }), d = throws([&] { c.arch()->OpenStream(i); }), e = throws([&] { c.arch()->ExtractFile(i, ROOT + "/oob.bin"); }), f = c.vol ? throws([&] { c.vol->GetCompressionCode(i); }) : true;
		if (!(a && b && d && e && f)) { Proto::mismatch(site, "accepted-should-refuse", where("index " + std::to_string(i))); return false; } return true; }
	if (op == "clm_create") { std::vector<std::string> in; for (auto& p : s["inputs"]) in.push_back(P(p)); bool refused = throws([&] { Archive::ClmFile::CreateArchive(P(s["out"]), in); }); bool want = s["expect"] == "refuse";
		if (refused != want) { Proto::mismatch(site, refused ? "refused-should-accept" : "accepted-should-refuse", where("")); return false; } return true; }
	if (op == "clm_open") { c.vol.reset(); c.clm.reset(); bool err = throws([&] { c.clm = std::make_unique<Archive::ClmFile>(P(s["path"])); }); if (err) { Proto::mismatch(site, "refused-should-accept", where("")); return false; }
		const json& L = s["listing"]; if (c.clm->GetCount() != L.size()) { Proto::mismatch(site, "count", where("count " + std::to_string(c.clm->GetCount()))); return false; }
		for (std::size_t i = 0; i < L.size(); ++i) { if (c.clm->GetName(i) != Scen::str(L[i]["name"])) { Proto::mismatch(site, "name", where("member " + std::to_string(i) + " is " + c.clm->GetName(i))); return false; } if (c.clm->GetSize(i) != L[i]["size"].get<uint32_t>()) { Proto::mismatch(site, "size", where("member " + std::to_string(i))); return false; } }
		return true; }
	// ---- C05, pipeline V recorder: a (corrupted) archive image, a call script on one long-lived object and on a fresh object per call ----
	if (op == "robust_vol" || op == "robust_clm") { const bool vol = op == "robust_vol"; std::string path = ROOT + (vol ? "/t.vol" : "/t.clm"); auto img = raw(s["image"]); Scen::spit(path, img);
		logev({{"e", "Reset"}, {"kind", vol ? "vol" : "clm"}, {"image", s["image"]}, {"scenario", CURSCN}});
		auto capped = [](std::vector<unsigned char> b) { if (b.size() > 4096) b.resize(4096); return json(b); };
		auto openIt = [&]() -> std::unique_ptr<Archive::ArchiveFile> { if (vol) return std::make_unique<Archive::VolFile>(path); return std::make_unique<Archive::ClmFile>(path); };
		// one call on a given object -> (ok, val)
		auto doCall = [&](Archive::ArchiveFile& v, const std::string& call, std::size_t i) -> std::pair<bool, json> { try {
				if (call == "GetCount") return {true, (long)v.GetCount()}; if (call == "GetName") { std::string n = v.GetName(i); return {true, json(std::vector<unsigned char>(n.begin(), n.end()))}; }
				if (call == "GetSize") return {true, std::to_string(v.GetSize(i))};
				if (call == "OpenStream") { auto st = v.OpenStream(i); return {true, capped(drain(*st))}; }
				if (call == "OpenStreamAfterFailedRead") { auto st = v.OpenStream(i); std::vector<unsigned char> big((std::size_t)st->Length() + 1);     // a refused read (one byte too many) must leave the stream as it was
					bool refused = false; try { st->Read(big.data(), big.size()); } catch (const std::exception&) { refused = true; } if (!refused) return {false, 0};
					if (st->Length() > 1) { unsigned char one; st->Read(&one, 1); refused = false; try { st->Read(big.data(), big.size() - 1); } catch (const std::exception&) { refused = true; } if (!refused) return {false, 0}; st->SeekBackward(1); }
					return {true, capped(drain(*st))}; }
				if (call == "SeekBeyond") { auto st = v.OpenStream(i); long accepted = 0;       // absolute seeks far outside a member stream (values next to 2^64, where offset arithmetic wraps)
					for (unsigned long long k : {0ull, 1ull, 7ull, 8ull, 59ull, 60ull, 200ull, 5000ull}) { bool ok = true; try { st->Seek(UINT64_MAX - k); } catch (const std::exception&) { ok = false; } if (ok || st->Position() > st->Length()) ++accepted; }
					// ... and relative seeks that leave the member from a position inside it (the bound is the bytes LEFT, resp. the bytes BEHIND)
					if (st->Length() >= 2) { const uint64_t len = st->Length();
						for (uint64_t p : {uint64_t(1), len - 1}) { st->Seek(p);
							for (uint64_t k : {len - p + 1, len}) { bool ok = true; try { st->SeekForward(k); } catch (const std::exception&) { ok = false; } if (ok || st->Position() != p) { ++accepted; st->Seek(p); } }
							for (uint64_t k : {p + 1, len + 1}) { bool ok = true; try { st->SeekBackward(k); } catch (const std::exception&) { ok = false; } if (ok || st->Position() != p) { ++accepted; st->Seek(p); } } } }
					return {true, accepted}; }
				if (call == "Extract") { std::string d = ROOT + "/ex.bin"; fs::remove(d); v.ExtractFile(i, d); return {true, capped(Scen::slurp(d))}; }
			} catch (const std::exception&) { return {false, 0}; } return {false, 0}; };
		std::unique_ptr<Archive::ArchiveFile> longLived; bool opened = true; try { longLived = openIt(); } catch (const std::exception&) { opened = false; }
		logev({{"e", "Call"}, {"obj", "long"}, {"call", "Open"}, {"i", 0}, {"key", "Open"}, {"ok", opened}, {"val", 0}});
		{ bool again = true; try { auto f = openIt(); } catch (const std::exception&) { again = false; } logev({{"e", "Call"}, {"obj", "fresh"}, {"call", "Open"}, {"i", 0}, {"key", "Open"}, {"ok", again}, {"val", 0}}); }
		if (!opened) return true;
		for (auto& c : s["calls"]) { const std::string call = c["call"]; std::size_t i = c["i"]; const std::string key = (call == "OpenStreamAfterFailedRead" ? std::string("OpenStream") : call) + ":" + std::to_string(i);   // the response to OpenStream is a function of the image, with or without a refused read in between
			Proto::sanitize(Proto::g_site, sizeof Proto::g_site, site + "/" + call); Proto::sanitize(Proto::g_detail, sizeof Proto::g_detail, where(key));
			auto a = doCall(*longLived, call, i); logev({{"e", "Call"}, {"obj", "long"}, {"call", call}, {"i", i}, {"key", key}, {"ok", a.first}, {"val", a.second}});
			auto fresh = openIt(); auto b = doCall(*fresh, call, i); logev({{"e", "Call"}, {"obj", "fresh"}, {"call", call}, {"i", i}, {"key", key}, {"ok", b.first}, {"val", b.second}}); }
		return true; }
	// ---- C05: arbitrary bytes offered as a WAV to CLM creation end in an error or an archive (never a hang or a memory fault) ----
	if (op == "robust_wav") { std::string in = ROOT + "/in.wav", out = ROOT + "/out.clm"; Scen::spit(in, raw(s["image"]));
		bool refused = throws([&] { Archive::ClmFile::CreateArchive(out, {in}); });
		if (!refused) { // an archive was produced: it must at least be a file the library itself can open and list
			bool bad = throws([&] { Archive::ClmFile c2(out); if (c2.GetCount() != 1) throw std::runtime_error("count"); auto st = c2.OpenStream(0); drain(*st); });
			if (bad) { Proto::mismatch(site, "accepted-but-unreadable", where("")); return false; } }
		return true; }
	if (op == "vol_limit" || op == "clm_limit") { const bool vol = op == "vol_limit"; const bool wantRefuse = s["expect"] == "refuse"; static const bool thorough = getenv("VERIF_TIER") && std::string(getenv("VERIF_TIER")) == "thorough";
		if (!wantRefuse && !thorough) return true;                                   // must-accept neighbours really copy gigabytes: thorough tier only
		std::vector<std::string> in; int k = 0; for (auto& sz : s["sizes"]) { unsigned long long n = std::stoull(sz.get<std::string>()); std::string p = ROOT + "/" + std::string(1, (char)('a' + k++)) + (vol ? "" : ".wav");
			int fd = open(p.c_str(), O_CREAT | O_WRONLY | O_TRUNC, 0644); if (fd < 0) { Proto::mismatch(site, "harness-io", where(p)); return false; }
			unsigned long long total = n;
			if (!vol) { unsigned char h[44]; auto le = [&](int o, unsigned long long v, int b) { for (int i = 0; i < b; ++i) h[o + i] = (unsigned char)(v >> (8 * i)); }; memcpy(h, "RIFF", 4); le(4, 36 + n, 4); memcpy(h + 8, "WAVEfmt ", 8); le(16, 16, 4); le(20, 1, 2); le(22, 1, 2); le(24, 22050, 4); le(28, 44100, 4); le(32, 2, 2); le(34, 16, 2); memcpy(h + 36, "data", 4); le(40, n, 4); if (write(fd, h, 44) != 44) { close(fd); return false; } total = n + 44; }
			if (ftruncate(fd, (off_t)total) != 0) { close(fd); Proto::mismatch(site, "harness-io", where("ftruncate")); return false; } close(fd); in.push_back(p); }
		const std::string out = ROOT + "/out.bin"; const std::vector<unsigned char> pre{9, 8, 7}; Scen::spit(out, pre);
		std::cout.flush(); pid_t pid = fork();
		if (pid == 0) { { struct itimerval t; memset(&t, 0, sizeof t); t.it_value.tv_sec = wantRefuse ? 20 : 600; setitimer(ITIMER_PROF, &t, nullptr); alarm(3600); signal(SIGPROF, SIG_DFL); }      // CPU time, not wall-clock time
			struct rlimit rl; rl.rlim_cur = rl.rlim_max = wantRefuse ? (64ull << 20) : RLIM_INFINITY; setrlimit(RLIMIT_FSIZE, &rl); signal(SIGXFSZ, SIG_DFL); signal(SIGALRM, SIG_DFL);
			try { if (vol) Archive::VolFile::CreateArchive(out, in); else Archive::ClmFile::CreateArchive(out, in); } catch (const std::exception&) { flush_profile(); _exit(10); } flush_profile(); _exit(11); }
		int st = 0; waitpid(pid, &st, 0); bool refused = WIFEXITED(st) && WEXITSTATUS(st) == 10, accepted = WIFEXITED(st) && WEXITSTATUS(st) == 11;
		bool cut = WIFSIGNALED(st) && (WTERMSIG(st) == SIGXFSZ || WTERMSIG(st) == SIGALRM || WTERMSIG(st) == SIGPROF);
		auto cleanup = [&] { for (auto& p : in) fs::remove(p); fs::remove(out); };
		if (wantRefuse) { if (!refused) { Proto::mismatch(site, cut || accepted ? "accepted-should-refuse" : "crash", where("sizes " + s["sizes"].dump() + (cut ? " (writing was cut short by the file-size limit)" : ""))); cleanup(); return false; }
			if (vol && Scen::slurp(out) != pre) { Proto::mismatch(site, "destination-altered"   /* the property promises an untouched destination for volume archives only */, where("sizes " + s["sizes"].dump())); cleanup(); return false; } }
		else if (!accepted) { Proto::mismatch(site, refused ? "refused-should-accept" : "crash", where("sizes " + s["sizes"].dump())); cleanup(); return false; }
		cleanup(); return true; }
	if (op == "vol_ref") { std::string path = ROOT + "/ref.vol"; Scen::spit(path, raw(s["image"])); std::unique_ptr<Archive::VolFile> v; if (throws([&] { v = std::make_unique<Archive::VolFile>(path); })) { Proto::mismatch(site + "/open", "refused-should-accept", where("")); return false; }
		const json& L = s["listing"]; if (v->GetCount() != L.size()) { Proto::mismatch(site + "/open", "count", where("count " + std::to_string(v->GetCount()) + " want " + std::to_string(L.size()))); return false; }
		for (std::size_t i = 0; i < L.size(); ++i) { auto w2 = [&](const std::string& e) { return where("member " + std::to_string(i) + " " + e); };
			if (v->GetName(i) != Scen::str(L[i]["name"])) { Proto::mismatch(site, "name", w2(v->GetName(i))); return false; } if (v->GetSize(i) != L[i]["size"].get<uint32_t>()) { Proto::mismatch(site, "size", w2("")); return false; } if ((int)v->GetCompressionCode(i) != L[i]["kind"].get<int>()) { Proto::mismatch(site, "kind", w2("")); return false; }
			std::vector<unsigned char> got; if (throws([&] { auto st = v->OpenStream(i); got = drain(*st); })) { Proto::mismatch(site + "/stream", "refused-should-accept", w2("")); return false; } if (got != raw(L[i]["stored"])) { Proto::mismatch(site + "/stream", "bytes", w2(Scen::hexdiff(got, raw(L[i]["stored"])))); return false; }
			std::string d = ROOT + "/x" + std::to_string(i); const int kindCode = L[i]["kind"].get<int>(); if (kindCode == 257 || kindCode == 258) { if (!throws([&] { v->ExtractFile(i, d); })) { Proto::mismatch(site + "/extract-unsupported-kind", "accepted-should-refuse", w2("")); return false; } continue; } if (throws([&] { v->ExtractFile(i, d); })) { Proto::mismatch(site + "/extract", "refused-should-accept", w2("")); return false; } auto ex = Scen::slurp(d), want = raw(L[i]["plain"]); if (ex != want) { Proto::mismatch(site + (L[i]["kind"].get<int>() == 259 ? "/extract-lzh" : "/extract"), "bytes", w2(Scen::hexdiff(ex, want))); return false; } }
		// the same object once more, members in descending order and then all at once: an extraction must not depend on what was extracted before it
		for (std::size_t k = L.size(); k-- > 0; ) { const int kindCode = L[k]["kind"].get<int>(); if (kindCode == 257 || kindCode == 258) continue; std::string d = ROOT + "/y" + std::to_string(k);
			if (throws([&] { v->ExtractFile(k, d); }) || Scen::slurp(d) != raw(L[k]["plain"])) { Proto::mismatch(site + "/extract-again", "bytes", where("member " + std::to_string(k) + " extracted after the members behind it")); return false; } }
		if (!throws([&] { v->GetName(L.size()); })) { Proto::mismatch(site, "accepted-should-refuse", where("index = count (an unused slot)")); return false; } return true; }
	// ---- C13, archive clause: member streams, copies of them and archive calls interleaved; every stream keeps its own position ----
	if (op == "arch_interleave") {
		for (const std::string kind : {"vol", "clm"}) { const std::string ksite = site + "/" + kind; Proto::sanitize(Proto::g_site, sizeof Proto::g_site, ksite);
			std::vector<std::vector<unsigned char>> content; std::vector<std::string> names, inputs; int mi = 0;
			for (auto& sz : s["sizes"]) { std::size_t n = sz; std::vector<unsigned char> c(n); for (std::size_t j = 0; j < n; ++j) c[j] = Scen::blob_byte(20 + mi, j); content.push_back(c);
				std::string name = std::string(kind == "vol" ? "m" : "t") + std::to_string(mi); names.push_back(name); std::string path = ROOT + "/" + kind + "in/" + name + (kind == "vol" ? "" : ".wav");
				if (kind == "vol") Scen::spit(path, c); else { std::vector<unsigned char> w; auto le = [&](unsigned long v, int b) { for (int i = 0; i < b; ++i) w.push_back((unsigned char)(v >> (8 * i))); }; auto tag = [&](const char* t) { w.insert(w.end(), t, t + 4); };
					tag("RIFF"); le(36 + n, 4); tag("WAVE"); tag("fmt "); le(16, 4); le(1, 2); le(1, 2); le(22050, 4); le(44100, 4); le(2, 2); le(16, 2); tag("data"); le(n, 4); w.insert(w.end(), c.begin(), c.end()); Scen::spit(path, w); }
				inputs.push_back(path); ++mi; }
			const std::string apath = ROOT + "/i." + kind; std::unique_ptr<Archive::ArchiveFile> arch;
			if (throws([&] { if (kind == "vol") { Archive::VolFile::CreateArchive(apath, inputs); arch = std::make_unique<Archive::VolFile>(apath); } else { Archive::ClmFile::CreateArchive(apath, inputs); arch = std::make_unique<Archive::ClmFile>(apath); } })) { Proto::mismatch(ksite, "refused-should-accept", where("creating / opening the archive")); return false; }
			std::vector<std::unique_ptr<Stream::BidirectionalReader>> streams; std::vector<std::size_t> member; std::vector<unsigned long long> pos; int k = 0;
			for (auto& o : s["ops"]) { ++k; const std::string what = o["op"]; auto note = [&](const std::string& e) { return where(kind + " op " + std::to_string(k) + " " + o.dump() + " " + e); };
				if (what == "open") { std::size_t m = o["m"]; std::unique_ptr<Stream::BidirectionalReader> r; bool err = throws([&] { r = arch->OpenStream(m); }); if (err == o["ok"].get<bool>()) { Proto::mismatch(ksite + "/OpenStream", err ? "refused-should-accept" : "accepted-should-refuse", note("")); return false; }
					if (!err) { if (r->Position() != 0 || r->Length() != content[m].size()) { Proto::mismatch(ksite + "/OpenStream", "state", note("fresh stream at " + std::to_string((long long)r->Position()) + " of " + std::to_string((long long)r->Length()))); return false; } streams.push_back(std::move(r)); member.push_back(m); pos.push_back(0); } }
				else if (what == "copy") { std::size_t si = o["s"]; auto* fsr = dynamic_cast<Stream::FileSliceReader*>(streams[si].get()); if (!fsr) { Proto::mismatch(ksite + "/copy", "harness-assumption", note("member stream is not a FileSliceReader")); return false; }
					streams.push_back(std::make_unique<Stream::FileSliceReader>(*fsr)); member.push_back(member[si]); pos.push_back(streams.back()->Position()); 
					if (streams.back()->Length() != content[member[si]].size() || streams.back()->Position() > streams.back()->Length()) { Proto::mismatch(ksite + "/copy", "state", note("")); return false; } }
				else if (what == "read" || what == "readpartial") { std::size_t si = o["s"], kk = o["k"]; unsigned char buf[8] = {0}; std::size_t n = 0; bool err = false;
					// a copy may start anywhere inside its member (the property asks for independence only): expectations are taken relative to this stream's own position
					const auto& c = content[member[si]]; unsigned long long p0 = pos[si]; std::size_t remaining = c.size() - p0; bool wantOk = what == "readpartial" || kk <= remaining; std::size_t wantN = what == "readpartial" ? std::min(kk, remaining) : kk;
					try { if (what == "read") { streams[si]->Read(buf, kk); n = kk; } else n = streams[si]->ReadPartial(buf, kk); } catch (const std::exception&) { err = true; }
					if (err == wantOk) { Proto::mismatch(ksite + "/" + what, err ? "refused-should-accept" : "accepted-should-refuse", note("")); return false; }
					if (!err) { if (n != wantN || !std::equal(buf, buf + n, c.begin() + p0)) { Proto::mismatch(ksite + "/" + what, "bytes", note("delivered " + std::to_string(n) + " bytes from position " + std::to_string(p0))); return false; } pos[si] = p0 + n; } }
				else if (what == "seek") { std::size_t si = o["s"]; unsigned long long p = o["p"]; bool wantOk = p <= content[member[si]].size(); bool err = throws([&] { streams[si]->Seek(p); }); if (err == wantOk) { Proto::mismatch(ksite + "/seek", err ? "refused-should-accept" : "accepted-should-refuse", note("")); return false; } if (!err) pos[si] = p; }
				else if (what == "call") { const std::string cc = o["c"]; std::size_t m = o["m"];
					if (throws([&] { if (cc == "name") { if (arch->GetName(m) != names[m]) throw std::logic_error("name"); } else if (cc == "size") { if (arch->GetSize(m) != content[m].size()) throw std::logic_error("size"); }
							else if (cc == "index") { if (arch->GetIndex(names[m]) != m) throw std::logic_error("index"); } else { std::string d = ROOT + "/x.bin"; arch->ExtractFile(m, d); auto got = Scen::slurp(d); if (got.size() < content[m].size() || !std::equal(content[m].begin(), content[m].end(), got.end() - content[m].size())) throw std::logic_error("extract"); } }))
						{ Proto::mismatch(ksite + "/call." + cc, "value", note("")); return false; } }
				// independence: every live stream is where its own history put it
				for (std::size_t i = 0; i < streams.size(); ++i) if (streams[i]->Position() != pos[i]) { Proto::mismatch(ksite + "/" + what, "other-stream-changed", note("stream " + std::to_string(i) + " is at " + std::to_string((long long)streams[i]->Position()) + ", its own history puts it at " + std::to_string(pos[i]))); return false; } } }
		return true; }
	OPS_EPILOGUE }
