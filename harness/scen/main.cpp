// Pipeline G, behaviour export: executes TLC-generated scenarios (spec/Scen.tla vocabulary) against the real
// library inside a sandbox directory and compares every observation with the specification's expectation.
//   scen_run --scenarios <file.ndjson> --workdir DIR --prop C01 [--log events.ndjson] [--start K] [--skip-sites a,b]
#include "../common/proto_main.hpp"
#include "ops.hpp"
// returns false when the scenario must stop (a mismatch was reported)
static bool step(Ctx& c, const json& s, int idx) {
	bool handled = false; bool ok;
	ok = ops_archive(c, s, idx, handled); if (handled) return ok;
	ok = ops_codec(c, s, idx, handled); if (handled) return ok;
	ok = ops_map(c, s, idx, handled); if (handled) return ok;
	ok = ops_image(c, s, idx, handled); if (handled) return ok;
	ok = ops_misc(c, s, idx, handled); if (handled) return ok;
	Proto::mismatch(PROP + "." + s["op"].get<std::string>(), "unknown-op", CURSCN); return false; }
// C18: with VERIF_STACK_PAINT=<byte> the stack below the interpreter is filled with that byte before every step, so that an automatic
// variable the library leaves (partly) uninitialised holds different garbage in different environments
__attribute__((noinline)) static void paint_stack(unsigned char v) { volatile unsigned char a[192 * 1024]; for (std::size_t i = 0; i < sizeof a; ++i) a[i] = v; }
int main(int argc, char** argv) {
	Proto::init(argc, argv); std::string path, work; const char* paintEnv = getenv("VERIF_STACK_PAINT"); const int paint = paintEnv ? atoi(paintEnv) : -1;
	for (int i = 1; i + 1 < argc; ++i) { std::string a = argv[i], v = argv[i + 1]; if (a == "--scenarios") path = v; else if (a == "--workdir") work = v; else if (a == "--prop") PROP = v; else if (a == "--log") { LOGPATH = v; LOGF.open(v, std::ios::app); }
		else if (a == "--skip-sites") { std::string x; for (char ch : v + ",") { if (ch == ',') { if (!x.empty()) SKIP_SITES.insert(x); x.clear(); } else x.push_back(ch); } } }
	std::ifstream f(path); std::string line; long long k = 0, executed = 0, steps = 0;
	while (std::getline(f, line)) { if (line.empty()) continue; long long id = k++; if (id < Proto::g_start) continue;
		json sc = json::parse(line); CURSCN = "scenario " + std::to_string(id) + " id=" + sc["id"].dump();
		if (!Proto::begin_case(id, PROP + ".scenario", CURSCN)) continue;
		ROOT = work + "/s" + std::to_string(id); fs::remove_all(ROOT); fs::create_directories(ROOT);
		{ Ctx c; int idx = 0; for (auto& s : sc["steps"]) { ++steps; if (paint >= 0) paint_stack((unsigned char)paint); if (!step(c, s, idx++)) break; } }
		fs::remove_all(ROOT); ++executed; }
	Proto::summary({{"scenarios", executed}, {"cases", k}, {"steps", steps}}); return 0; }
