// Pipeline V recorder for C15: drives the real AdaptiveHuffmanTree(314) through a long update history and logs
// one ndjson event per call for validation by spec/Trace_Huffman.tla.
//   huff_rec --pattern random|single|lead|roundrobin|sawtooth|fib --steps K [--table-every 512] [--seed S] > trace.ndjson
#include "Archive/HuffLZ.h"
#include <nlohmann/json.hpp>
#include <cstring>
#include <functional>
#include <iostream>
#include <random>
#include <vector>
using namespace OP2Utility::Archive; using json = nlohmann::json;
static const int N = 314;
static void paths_of(AdaptiveHuffmanTree& t, std::vector<std::vector<int>>& out) { out.assign(N, {}); std::vector<int> cur; std::function<void(unsigned)> go = [&](unsigned n) { if (cur.size() > 700) throw std::logic_error("cycle"); if (t.IsLeaf(n)) { unsigned d = t.GetNodeData(n); if (d < (unsigned)N) out[d] = cur; return; } cur.push_back(0); go(t.GetChildNode(n, false)); cur.back() = 1; go(t.GetChildNode(n, true)); cur.pop_back(); }; go(t.GetRootNodeIndex()); }
// the encoder's view: the bit string GetEncodedBitString reports for a symbol, in the order the decoder consumes it (LSB = branch at the root)
static json enc_of(AdaptiveHuffmanTree& t, unsigned x) { try { unsigned bc = 0; unsigned bs = t.GetEncodedBitString((unsigned short)x, bc); if (bc > 64) return json::array({-1}); json a = json::array(); for (unsigned i = 0; i < bc; ++i) a.push_back(i < 32 ? (bs >> i) & 1 : 0); return a; } catch (const std::exception&) { return json::array({-1}); } }
// "fib": the 314 symbols start with weight 1 each (a balanced blob B of weight 314, codes of 8-9 bits).  Symbol 7*i is then updated t_i times
// in a row with t_1 = t_2 = 314 and t_(i+2) = 314 + t_1 + ... + t_i: each heavy symbol is as frequent as everything lighter together, the
// profile that makes codes as long as the counters allow (ten such symbols fit below the capacity: codes of more than 16 bits)
static unsigned fib_symbol(long k) { long t[40]; long sum = 0, start = 0; for (int i = 1; i < 40; ++i) { t[i] = i <= 2 ? N : N + sum - t[i - 1]; sum += t[i]; if (k < start + t[i]) return (unsigned)((7 * i) % N); start += t[i]; } return 0; }
int main(int argc, char** argv) { std::string pattern = "random"; long steps = 1000, every = 512; unsigned long long seed = 1;
	for (int i = 1; i + 1 < argc; ++i) { std::string a = argv[i], v = argv[i + 1]; if (a == "--pattern") pattern = v; else if (a == "--steps") steps = atol(v.c_str()); else if (a == "--table-every") every = atol(v.c_str()); else if (a == "--seed") seed = strtoull(v.c_str(), 0, 10); }
	std::mt19937_64 rng(seed); AdaptiveHuffmanTree t(N); std::vector<std::vector<int>> P; std::cout << json{{"e", "Init"}}.dump() << "\n";
	for (long k = 0; k < steps; ++k) { unsigned x;
		if (pattern == "single") x = 65; else if (pattern == "lead") x = k < 33200 ? 5u : (unsigned)((k % 3 == 0) ? 5 : (7 * (k - 33200) + 7) % N);   /* "lead": one symbol more than 2^15 counts ahead of every other, then the others */ else if (pattern == "fib") x = fib_symbol(k); else if (pattern == "roundrobin") x = (unsigned)(k % N); else if (pattern == "sawtooth") { long p = k % (2 * N - 2); x = (unsigned)(p < N ? p : 2 * N - 2 - p); } else { x = (unsigned)(rng() % 16 == 0 ? rng() % N : rng() % 7 * 40); }
		if (pattern == "random" && rng() % 997 == 0) { static const unsigned far[] = {65535u, 65534u, 65536u - (2 * N - 1), 65537u - (2 * N - 1), 32768u, 32767u, 1000u}; x = rng() % 2 ? N + (unsigned)(rng() % 3) : far[rng() % 7]; }   // now and then an out-of-range symbol, also next to 2^16 where index arithmetic wraps
		bool ok = true; try { t.UpdateCodeCount(x); } catch (const std::exception&) { ok = false; }
		json ev{{"e", "Upd"}, {"x", x}, {"ok", ok}, {"path", json::array()}, {"enc", json::array()}}; if (x < (unsigned)N) ev["enc"] = enc_of(t, x);
		try { paths_of(t, P); if (x < (unsigned)N) ev["path"] = P[x]; } catch (const std::exception&) { ev["path"] = json::array({-1}); }
		std::cout << ev.dump() << "\n";
		if ((k + 1) % every == 0 || k + 1 == steps) { json E = json::array(); for (int s = 0; s < N; ++s) E.push_back(enc_of(t, (unsigned)s)); std::cout << json{{"e", "Table"}, {"paths", P}, {"enc", E}}.dump() << "\n"; } }
	return 0; }
