// Pipeline V recorder for C18: runs the serialisation / parsing scenarios once in the current environment and logs a
// digest of every output.  Heap fill comes from MALLOC_PERTURB_ (set by the runner), automatic-variable fill from
// paint() before every scenario; the runner repeats this with different fills, compilers and ASLR settings.
//   det_rec --env NAME --paint 165 --workdir DIR
#include "OP2Utility.h"
#include "Sprite/TilesetLoader.h"
#include "Stream/DynamicMemoryWriter.h"
#include <nlohmann/json.hpp>
#include <cstring>
#include <filesystem>
#include <fstream>
#include <iostream>
using namespace OP2Utility; using json = nlohmann::json; namespace fs = std::filesystem;
static std::string ENVN, WORK; static unsigned char PAINT = 0;
__attribute__((noinline)) static void paint() { volatile unsigned char a[96 * 1024]; for (std::size_t i = 0; i < sizeof(a); ++i) a[i] = PAINT; }
static std::string digest(const std::vector<unsigned char>& b) { unsigned long long h = 1469598103934665603ull; for (unsigned char c : b) { h ^= c; h *= 1099511628211ull; } char buf[40]; snprintf(buf, sizeof buf, "%016llx:%zu", h, b.size()); return buf; }
static void observe(const std::string& sc, const std::vector<unsigned char>& b) { std::cout << json{{"e", "Observe"}, {"sc", sc}, {"env", ENVN}, {"d", digest(b)}}.dump() << std::endl; }
static std::vector<unsigned char> bytes(Stream::DynamicMemoryWriter& w) { auto r = w.GetReader(); std::vector<unsigned char> b(r.Length()); if (!b.empty()) r.Read(b.data(), b.size()); return b; }
static std::vector<unsigned char> slurp(const std::string& p) { std::ifstream f(p, std::ios::binary); return std::vector<unsigned char>((std::istreambuf_iterator<char>(f)), {}); }
static void spit(const std::string& p, const std::string& s) { fs::create_directories(fs::path(p).parent_path()); std::ofstream f(p, std::ios::binary); f.write(s.data(), (std::streamsize)s.size()); }
// each scenario lives in its own non-inlined function so that its locals occupy freshly painted stack
__attribute__((noinline)) static void sc_map_default() { Map m; Stream::DynamicMemoryWriter w; m.Write(w); observe("map.default.write", bytes(w)); }
__attribute__((noinline)) static void sc_art_default() { ArtFile a; Stream::DynamicMemoryWriter w; a.Write(w); observe("prt.default.write", bytes(w)); }
__attribute__((noinline)) static void sc_bmp_factory() { for (int bc : {1, 4, 8}) { auto b = BitmapFile::CreateIndexed((uint16_t)bc, 5, -3); Stream::DynamicMemoryWriter w; b.WriteIndexed(w); observe("bmp.factory." + std::to_string(bc), bytes(w)); } }
__attribute__((noinline)) static void sc_tileset() { auto b = BitmapFile::CreateIndexed(8, 32, 32); for (std::size_t i = 0; i < b.pixels.size(); ++i) b.pixels[i] = (uint8_t)(i * 7); Stream::DynamicMemoryWriter w; Tileset::WriteCustomTileset(w, b); observe("tileset.custom.write", bytes(w)); }
__attribute__((noinline)) static void sc_map_parse() { Stream::DynamicMemoryWriter w0; { Map m; m.tiles.resize(0); w0.Write("\x11\x10\0\0\0\0\0\0\0\0\0\0\0\0\0\0\0\0\0\0", 20); char z[16] = {1, 2, 3}; w0.Write(z, 16); w0.Write("TILE SET\x1a", 10); uint32_t v = 0; w0.Write(v); w0.Write(v); v = 0x1011; w0.Write(v); w0.Write(v); v = 0; w0.Write(v); w0.Write(v); }
	auto in = bytes(w0); Stream::MemoryReader r(in.data(), in.size()); Map m = Map::ReadMap(r); Stream::DynamicMemoryWriter w; m.Write(w); observe("map.parse.rewrite", bytes(w)); }
__attribute__((noinline)) static void sc_vol(bool reversed, bool dotslash) { std::string d = "vin"; spit(d + "/b.txt", "BBBBB"); spit(d + "/A_.x", "12"); spit(d + "/sub/ab", ""); std::string pre = dotslash ? "./" : "";
	std::vector<std::string> in{pre + d + "/b.txt", pre + d + "/A_.x", pre + d + "/sub/ab"}; if (reversed) std::swap(in[0], in[2]); std::string out = "o.vol"; Archive::VolFile::CreateArchive(out, in); observe("vol.create", slurp(out));
	Archive::VolFile v(out); v.ExtractFile(2, "ex.bin"); observe("vol.extract", slurp("ex.bin")); }
__attribute__((noinline)) static void sc_clm(bool reversed) { auto le = [](std::string& o, unsigned long long v, int n) { for (int i = 0; i < n; ++i) o.push_back((char)(v >> (8 * i))); };
	auto wav = [&](const std::string& data) { std::string w = "RIFF"; le(w, 36 + data.size(), 4); w += "WAVEfmt "; le(w, 16, 4); le(w, 1, 2); le(w, 1, 2); le(w, 22050, 4); le(w, 44100, 4); le(w, 2, 2); le(w, 16, 2); w += "data"; le(w, data.size(), 4); return w + data; };
	std::string d = "cin"; spit(d + "/t1.wav", wav("AAAA")); spit(d + "/T2.wav", wav("BBBBBB")); std::vector<std::string> in{d + "/t1.wav", d + "/T2.wav"}; if (reversed) std::swap(in[0], in[1]);
	std::string out = "o.clm"; Archive::ClmFile::CreateArchive(out, in); observe("clm.create", slurp(out)); Archive::ClmFile c(out); c.ExtractFile(1, "ex.wav"); observe("clm.extract", slurp("ex.wav")); }
int main(int argc, char** argv) { for (int i = 1; i + 1 < argc; ++i) { std::string a = argv[i], v = argv[i + 1]; if (a == "--env") ENVN = v; else if (a == "--paint") PAINT = (unsigned char)atoi(v.c_str()); else if (a == "--workdir") WORK = v; }
	fs::create_directories(WORK); fs::current_path(WORK); std::cout << json{{"e", "Reset"}, {"scenario", "environment " + ENVN}}.dump() << std::endl;
	paint(); sc_map_default(); paint(); sc_art_default(); paint(); sc_bmp_factory(); paint(); sc_tileset(); paint(); sc_map_parse();
	for (int k = 0; k < 4; ++k) { paint(); sc_vol(k & 1, k & 2); } for (int k = 0; k < 2; ++k) { paint(); sc_clm(k); }
	return 0; }
