// Pipeline V recorder for C18: runs the serialisation / parsing scenarios once in the current environment and logs a digest of
// every output: the bytes every serialiser produces, and a canonical field-by-field dump of every structure a parser returns.
// Heap fill comes from MALLOC_PERTURB_ (set by the runner), automatic-variable fill from paint() before every scenario; the
// runner repeats this with different fills, compilers and address-space layouts (tools/parts.py: c18), and
// spec/Trace_Determinism.tla requires every observation of a scenario to equal the first one.
//   det_rec --env NAME --paint 165 --workdir DIR
#include "OP2Utility.h"
#include "Sprite/TilesetLoader.h"
#include "Stream/DynamicMemoryWriter.h"
#include "Map/MapHeader.h"
#include <nlohmann/json.hpp>
#include <cstring>
#include <filesystem>
#include <fstream>
#include <iostream>
using namespace OP2Utility;
using json = nlohmann::json;
namespace fs = std::filesystem;
using Bytes = std::vector<unsigned char>;

static std::string ENVN, WORK;
static unsigned char PAINT = 0;

// fills a large stretch of the stack below the caller with the pattern: the next call's locals start out as this garbage
__attribute__((noinline)) static void paint() {
	volatile unsigned char a[160 * 1024];
	for (std::size_t i = 0; i < sizeof(a); ++i) a[i] = PAINT;
}
static std::string digest(const Bytes& b) {
	unsigned long long h = 1469598103934665603ull;
	for (unsigned char c : b) { h ^= c; h *= 1099511628211ull; }
	char buf[40]; snprintf(buf, sizeof buf, "%016llx:%zu", h, b.size());
	return buf;
}
static void observe(const std::string& sc, const Bytes& b) {
	std::cout << json{{"e", "Observe"}, {"sc", sc}, {"env", ENVN}, {"d", digest(b)}}.dump() << std::endl;
}
static Bytes bytes(Stream::DynamicMemoryWriter& w) { auto r = w.GetReader(); Bytes b(r.Length()); if (!b.empty()) r.Read(b.data(), b.size()); return b; }
static Bytes slurp(const std::string& p) { std::ifstream f(p, std::ios::binary); return Bytes((std::istreambuf_iterator<char>(f)), {}); }
static void spit(const std::string& p, const Bytes& s) { if (fs::path(p).has_parent_path()) fs::create_directories(fs::path(p).parent_path()); std::ofstream f(p, std::ios::binary); f.write((const char*)s.data(), (std::streamsize)s.size()); }
static void spit(const std::string& p, const std::string& s) { spit(p, Bytes(s.begin(), s.end())); }

// ---- canonical dumps of parsed structures (field by field: padding inside structs never enters) -----------------------------
struct Dump {
	Bytes b;
	template <class T> void raw(const T& v) { const unsigned char* p = reinterpret_cast<const unsigned char*>(&v); b.insert(b.end(), p, p + sizeof(T)); }
	void u(unsigned long long v) { for (int i = 0; i < 8; ++i) b.push_back((unsigned char)(v >> (8 * i))); }
	void str(const std::string& s) { u(s.size()); b.insert(b.end(), s.begin(), s.end()); }
	template <class V> void vec(const V& v) { u(v.size()); for (auto& x : v) raw(x); }
};
static Bytes dump(const Map& m) {
	Dump d; d.u(m.GetVersionTag()); d.u(m.IsSavedGame()); d.u(m.WidthInTiles()); d.u(m.HeightInTiles()); d.vec(m.tiles); d.raw(m.clipRect);
	d.u(m.tilesetSources.size()); for (auto& s : m.tilesetSources) { d.str(s.tilesetFilename); d.u(s.numTiles); }
	d.vec(m.tileMappings); d.vec(m.terrainTypes);
	d.u(m.tileGroups.size()); for (auto& g : m.tileGroups) { d.str(g.name); d.u(g.tileWidth); d.u(g.tileHeight); d.vec(g.mappingIndices); }
	return d.b;
}
static Bytes dump(const BitmapFile& b) { Dump d; d.raw(b.bmpHeader); d.raw(b.imageHeader); d.vec(b.palette); d.vec(b.pixels); return d.b; }
static Bytes dump(const ArtFile& a) {
	Dump d; d.u(a.palettes.size()); for (auto& p : a.palettes) d.raw(p);
	d.vec(a.imageMetas); d.u(a.unknownAnimationCount); d.u(a.animations.size());
	for (auto& an : a.animations) { d.u(an.unknown); d.raw(an.selectionRect); d.raw(an.pixelDisplacement); d.u(an.unknown2); d.u(an.frames.size());
		for (auto& f : an.frames) { d.raw(f.layerMetadata); d.raw(f.unknownBitfield); d.u(f.optional1); d.u(f.optional2); d.u(f.optional3); d.u(f.optional4); d.vec(f.layers); }
		d.vec(an.unknownContainer); }
	return d.b;
}
static Bytes dump(Archive::ArchiveFile& a) { Dump d; d.u(a.GetCount()); for (std::size_t i = 0; i < a.GetCount(); ++i) { d.str(a.GetName(i)); d.u(a.GetSize(i)); } return d.b; }

// ---- inputs --------------------------------------------------------------------------------------------------------------------
static void le(Bytes& o, unsigned long long v, int n) { for (int i = 0; i < n; ++i) o.push_back((unsigned char)(v >> (8 * i))); }
static void tag(Bytes& o, const char* t) { o.insert(o.end(), t, t + strlen(t)); }
// a 2 x 3 map: an unnamed tileset slot first, a named one, an unnamed one after it, mappings, one terrain type, two groups
static Bytes map_image(bool saved) {
	Bytes o; le(o, 0x1011, 4); le(o, saved ? 1 : 0, 4); le(o, 1, 4); le(o, 3, 4); le(o, 3, 4);
	for (int i = 0; i < 6; ++i) le(o, 0x01020304u * (unsigned)(i + 1), 4);
	for (int i = 0; i < 4; ++i) le(o, (unsigned)(i * 7 + 1), 4);
	le(o, 0, 4);                                         // unnamed slot: no tile count follows
	le(o, 8, 4); tag(o, "well0001"); le(o, 40, 4);       // named slot
	le(o, 0, 4);                                         // unnamed slot after a named one
	tag(o, "TILE SET\x1a"); o.push_back(0);
	le(o, 2, 4); for (int i = 0; i < 8; ++i) le(o, (unsigned)(i + 1), 2);
	le(o, 1, 4); for (int i = 0; i < 264; ++i) o.push_back((unsigned char)(i * 3));
	return o;
}
static Bytes map_tail() { Bytes o; le(o, 0x1011, 4); le(o, 0x1011, 4); le(o, 2, 4); le(o, 1, 4);
	le(o, 2, 4); le(o, 1, 4); le(o, 5, 4); le(o, 6, 4); le(o, 3, 4); tag(o, "abc");
	le(o, 0, 4); le(o, 4, 4); le(o, 0, 4); return o; }
static Bytes full_map() { Bytes o = map_image(false), t = map_tail(); o.insert(o.end(), t.begin(), t.end()); return o; }
static Bytes saved_game() { Bytes o(0x1E025, 0); Bytes m = map_image(true); o.insert(o.end(), m.begin(), m.end()); le(o, 0x1011, 4);
	le(o, 0, 4); le(o, 0, 4); le(o, 5, 4); le(o, 5, 4); le(o, 120, 4); le(o, 1, 4); le(o, 2, 4); o.insert(o.end(), 512 + 8, 0); le(o, 0, 4); le(o, 0, 4); o.insert(o.end(), 2047 * 120, 0); le(o, 0x1011, 4); return o; }
static Bytes bmp_image() { Bytes o; tag(o, "BM"); le(o, 14 + 40 + 3 * 4 + 2 * 4, 4); le(o, 0, 4); le(o, 14 + 40 + 3 * 4, 4);
	le(o, 40, 4); le(o, 5, 4); le(o, (unsigned)-2, 4); le(o, 1, 2); le(o, 4, 2); le(o, 0, 4); le(o, 0, 4); le(o, 0, 4); le(o, 0, 4); le(o, 3, 4); le(o, 0, 4);
	for (int i = 0; i < 12; ++i) o.push_back((unsigned char)(i * 9 + 1)); for (int i = 0; i < 8; ++i) o.push_back((unsigned char)(0xF0 + i)); return o; }
static Bytes prt_image() { Bytes o; tag(o, "CPAL"); le(o, 1, 4); tag(o, "PPAL"); le(o, 1048, 4); tag(o, "head"); le(o, 4, 4); le(o, 1, 4); tag(o, "data"); le(o, 1024, 4);
	for (int i = 0; i < 1024; ++i) o.push_back((unsigned char)(i * 5 + 3));
	le(o, 1, 4); le(o, 8, 4); le(o, 0, 4); le(o, 3, 4); le(o, 5, 4); le(o, 5, 2); le(o, 0, 2);
	le(o, 1, 4); le(o, 4, 4); le(o, 1, 4); le(o, 9, 4);
	le(o, 0x04030201, 4); for (int i = 0; i < 16; ++i) o.push_back((unsigned char)(i + 1)); for (int i = 0; i < 8; ++i) o.push_back((unsigned char)(101 + i)); le(o, 60, 4); le(o, 4, 4);
	o.push_back(0x80); o.push_back(0x05); o.push_back(21); o.push_back(22);                                     // frame 0: the FIRST optional pair only (the fields of the absent pair must not depend on what memory held)
	o.push_back(1); o.push_back(5); for (int i = 0; i < 8; ++i) o.push_back((unsigned char)(i + 20));          // frame 1: one layer, no optional bytes
	o.push_back(0x80); o.push_back(0x85); o.push_back(11); o.push_back(12); o.push_back(13); o.push_back(14); // frame 2: no layers, both optional pairs
	o.push_back(0x80); o.push_back(0x05); o.push_back(23); o.push_back(24);                                     // frame 3: the first pair only, again - right after a frame that carried both
	le(o, 1, 4); for (int i = 0; i < 16; ++i) o.push_back((unsigned char)(200 + i)); return o; }
static Bytes wav(const std::string& data, bool extra) { Bytes w; tag(w, "RIFF"); le(w, 36 + data.size() + (extra ? 12 : 0), 4); tag(w, "WAVEfmt "); le(w, 16, 4); le(w, 1, 2); le(w, 1, 2); le(w, 22050, 4); le(w, 44100, 4); le(w, 2, 2); le(w, 16, 2);
	tag(w, "data"); le(w, data.size(), 4); w.insert(w.end(), data.begin(), data.end()); if (extra) { tag(w, "LIST"); le(w, 4, 4); tag(w, "abcd"); } return w; }

// ---- scenarios: each in its own non-inlined function so that its locals occupy freshly painted stack ------------------------------
#define SCENARIO __attribute__((noinline)) static void
SCENARIO sc_map_default() { Map m; Stream::DynamicMemoryWriter w; m.Write(w); observe("map.default.write", bytes(w)); observe("map.default.fields", dump(m)); }
SCENARIO sc_art_default() { ArtFile a; Stream::DynamicMemoryWriter w; a.Write(w); observe("prt.default.write", bytes(w)); observe("prt.default.fields", dump(a)); }
SCENARIO sc_bmp_factory() { for (int bc : {1, 4, 8}) { auto b = BitmapFile::CreateIndexed((uint16_t)bc, 5, -3); Stream::DynamicMemoryWriter w; b.WriteIndexed(w); observe("bmp.factory." + std::to_string(bc) + ".write", bytes(w)); observe("bmp.factory." + std::to_string(bc) + ".fields", dump(b)); } }
SCENARIO sc_tileset() { auto b = BitmapFile::CreateIndexed(8, 32, 32); for (std::size_t i = 0; i < b.pixels.size(); ++i) b.pixels[i] = (uint8_t)(i * 7); for (std::size_t i = 0; i < b.palette.size(); ++i) b.palette[i] = Color{(uint8_t)i, (uint8_t)(255 - i), 7, (uint8_t)(i * 3)};
	Stream::DynamicMemoryWriter w; Tileset::WriteCustomTileset(w, b); Bytes custom = bytes(w); observe("tileset.custom.write", custom);
	Stream::MemoryReader r(custom.data(), custom.size()); auto back = Tileset::ReadTileset(r); observe("tileset.custom.parse.fields", dump(back)); }
SCENARIO sc_map_parse() { Bytes in = full_map(); Stream::MemoryReader r(in.data(), in.size()); Map m = Map::ReadMap(r); observe("map.parse.fields", dump(m));
	Stream::DynamicMemoryWriter w; m.Write(w); observe("map.parse.rewrite", bytes(w)); m.TrimTilesetSources(); m.SetLavaPossible(true, 0, 0);      // (the 32-column block addressing of the accessors is defined for widths of 32 and more; on this 2-wide map only column 0 of row 0 is safe to address)
	 Stream::DynamicMemoryWriter w2; m.Write(w2); observe("map.parse.edit.rewrite", bytes(w2)); }
SCENARIO sc_map_parse_deep() { volatile char pad[3000]; for (auto& c : pad) c = (char)PAINT; Bytes in = full_map(); Stream::MemoryReader r(in.data(), in.size()); Map m = Map::ReadMap(r); observe("map.parse.fields", dump(m)); }   // same scenario from another stack depth
SCENARIO sc_save_parse() { Bytes in = saved_game(); Stream::MemoryReader r(in.data(), in.size()); Map m = Map::ReadSavedGame(r); observe("save.parse.fields", dump(m)); }
SCENARIO sc_bmp_parse() { Bytes in = bmp_image(); Stream::MemoryReader r(in.data(), in.size()); auto b = BitmapFile::ReadIndexed(r); observe("bmp.parse.fields", dump(b));
	Stream::DynamicMemoryWriter w; b.WriteIndexed(w); observe("bmp.parse.rewrite", bytes(w)); b.InvertScanLines(); Stream::DynamicMemoryWriter w2; b.WriteIndexed(w2); observe("bmp.parse.flip.rewrite", bytes(w2)); }
SCENARIO sc_prt_parse() { Bytes in = prt_image(); Stream::MemoryReader r(in.data(), in.size()); ArtFile a = ArtFile::Read(r); observe("prt.parse.fields", dump(a)); Stream::DynamicMemoryWriter w; a.Write(w); observe("prt.parse.rewrite", bytes(w)); }
SCENARIO sc_vol(bool reversed, bool dotslash) { std::string d = "vin"; spit(d + "/b.txt", "BBBBB"); spit(d + "/A_.x", "12"); spit(d + "/sub/ab", ""); spit(d + "/sub/Zz9", std::string(131073, 'q')); std::string pre = dotslash ? "./" : "";
	std::vector<std::string> in{pre + d + "/b.txt", pre + d + "/A_.x", pre + d + "/sub/ab", pre + d + "/sub/Zz9"}; if (reversed) std::reverse(in.begin(), in.end()); std::string out = "o.vol"; fs::remove(out); Archive::VolFile::CreateArchive(out, in); observe("vol.create", slurp(out));
	Archive::VolFile v(out); observe("vol.listing", dump(v)); v.ExtractFile(2, "ex.bin"); observe("vol.extract", slurp("ex.bin")); auto st = v.OpenStream(3); Bytes sb(st->Length()); st->Read(sb.data(), sb.size()); observe("vol.stream", sb); }
// an odd member count: the index table (14 bytes per entry) then ends off a 4-byte boundary and is followed by alignment padding
SCENARIO sc_vol_odd(int count, bool reversed) { std::string d = "vodd"; std::vector<std::string> in; for (int i = 0; i < count; ++i) { std::string p = d + "/m" + std::to_string(i) + (i % 2 ? ".TXT" : ".b"); spit(p, std::string((std::size_t)(i * 3 % 7), (char)('a' + i))); in.push_back(p); }
	if (reversed) std::reverse(in.begin(), in.end()); std::string out = "odd.vol"; fs::remove(out); Archive::VolFile::CreateArchive(out, in); observe("vol.odd" + std::to_string(count) + ".create", slurp(out)); Archive::VolFile v(out); observe("vol.odd" + std::to_string(count) + ".listing", dump(v)); }
SCENARIO sc_clm(bool reversed, bool respelled) { std::string d = "cin"; spit(d + "/t1.wav", wav("AAAA", false)); spit(d + "/T2.wav", wav("BBBBBB", true)); spit(d + "/t_3.wav", wav("", false)); spit("cin2/t_3.wav", wav("", false));
	std::vector<std::string> in{d + "/t1.wav", d + "/T2.wav", d + "/t_3.wav"}; if (respelled) in = {"./" + d + "/t1.wav", d + "//T2.wav", "cin2/t_3.wav"};       // the same files reached through other spellings / another directory
	if (reversed) std::reverse(in.begin(), in.end());
	std::string out = "o.clm"; fs::remove(out); Archive::ClmFile::CreateArchive(out, in); observe("clm.create", slurp(out)); Archive::ClmFile c(out); observe("clm.listing", dump(c)); c.ExtractFile(1, "ex.wav"); observe("clm.extract", slurp("ex.wav")); }
SCENARIO sc_files() { Map m; m.Write("m.map"); observe("map.default.write.file", slurp("m.map")); auto b = BitmapFile::CreateIndexed(4, 9, 2); b.WriteIndexed("b.bmp"); observe("bmp.factory.write.file", slurp("b.bmp")); ArtFile a; a.Write("a.prt"); observe("prt.default.write.file", slurp("a.prt")); }

// a scenario that ends in an exception (a changed library may refuse what it used to accept) is itself an observation: the recorder goes on,
// and the determinism comparison still has every other scenario - and the fact that this one threw - to compare
template <class F> static void guarded(const std::string& name, F f) { try { f(); } catch (const std::exception&) { observe(name + ".threw", Bytes{1}); } }
int main(int argc, char** argv) {
	for (int i = 1; i + 1 < argc; ++i) { std::string a = argv[i], v = argv[i + 1]; if (a == "--env") ENVN = v; else if (a == "--paint") PAINT = (unsigned char)atoi(v.c_str()); else if (a == "--workdir") WORK = v; }
	fs::create_directories(WORK); fs::current_path(WORK);
	std::cout << json{{"e", "Reset"}, {"scenario", "environment " + ENVN}}.dump() << std::endl;
	paint(); guarded("sc_map_default", [&] { sc_map_default(); }); paint(); guarded("sc_art_default", [&] { sc_art_default(); }); paint(); guarded("sc_bmp_factory", [&] { sc_bmp_factory(); }); paint(); guarded("sc_tileset", [&] { sc_tileset(); }); paint(); guarded("sc_map_parse", [&] { sc_map_parse(); }); paint(); guarded("sc_map_parse_deep", [&] { sc_map_parse_deep(); });
	paint(); guarded("sc_save_parse", [&] { sc_save_parse(); }); paint(); guarded("sc_bmp_parse", [&] { sc_bmp_parse(); }); paint(); guarded("sc_prt_parse", [&] { sc_prt_parse(); }); paint(); guarded("sc_files", [&] { sc_files(); });
	for (int k = 0; k < 4; ++k) { paint(); guarded("sc_vol", [&] { sc_vol(k & 1, k & 2); }); }
	for (int count : {1, 3, 5, 7}) for (int k = 0; k < 2; ++k) { paint(); guarded("sc_vol_odd", [&] { sc_vol_odd(count, k); }); }
	for (int k = 0; k < 4; ++k) { paint(); guarded("sc_clm", [&] { sc_clm(k & 1, k & 2); }); }
	return 0;
}
