// Helpers shared by scenario-driven harnesses: segment expansion, sandbox paths, file comparison.
#pragma once
#include "proto.hpp"
#include <filesystem>
#include <fstream>
#include <vector>
namespace Scen {
using json = nlohmann::json; namespace fs = std::filesystem;
inline unsigned char blob_byte(long id, unsigned long long j) { return (unsigned char)((id * 131 + j * 31 + (j >> 8) * 7 + 17) % 251); }
inline std::string str(const json& codes) { std::string s; for (auto& c : codes) s.push_back((char)c.get<int>()); return s; }
inline std::vector<unsigned char> expand(const json& segs) {
	std::vector<unsigned char> o;
	for (auto& s : segs) { const std::string k = s["k"];
		if (k == "b") for (auto& v : s["v"]) o.push_back((unsigned char)v.get<int>());
		else if (k == "z") o.insert(o.end(), s["n"].get<std::size_t>(), 0);
		else { long id = s["id"]; unsigned long long off = s["off"], n = s["n"]; for (unsigned long long j = 0; j < n; ++j) o.push_back(blob_byte(id, off + j)); } }
	return o; }
inline std::vector<unsigned char> slurp(const std::string& p) { std::ifstream f(p, std::ios::binary); return std::vector<unsigned char>((std::istreambuf_iterator<char>(f)), {}); }
inline void spit(const std::string& p, const std::vector<unsigned char>& b) { if (fs::path(p).has_parent_path()) fs::create_directories(fs::path(p).parent_path()); std::ofstream f(p, std::ios::binary); f.write((const char*)b.data(), (std::streamsize)b.size()); }
inline std::string hexdiff(const std::vector<unsigned char>& got, const std::vector<unsigned char>& want) {
	std::size_t i = 0; while (i < got.size() && i < want.size() && got[i] == want[i]) ++i;
	char buf[200]; snprintf(buf, sizeof buf, "sizes %zu/%zu first difference at %zu (got %d want %d)", got.size(), want.size(), i, i < got.size() ? got[i] : -1, i < want.size() ? want[i] : -1); return buf; }
}  // namespace Scen
