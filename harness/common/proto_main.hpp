// Strong definitions that must appear in exactly one translation unit of a harness (the one with main).
#pragma once
#include "proto.hpp"
// AddressSanitizer calls this (weak hook) right before it prints its report.
// (strong definition: this header is included by exactly one translation unit per harness)
extern "C" void __asan_on_error() { Proto::crash_line("asan"); }

// Allocation cap: with ASAN_OPTIONS=allocator_may_return_null=1:max_allocation_size_mb=N a refused malloc returns
// null; these replacements turn that into std::bad_alloc, i.e. an ordinary error, instead of a sanitizer abort.
void* operator new(std::size_t n) { void* p = std::malloc(n ? n : 1); if (!p) throw std::bad_alloc(); return p; }
void* operator new[](std::size_t n) { void* p = std::malloc(n ? n : 1); if (!p) throw std::bad_alloc(); return p; }
void operator delete(void* p) noexcept { std::free(p); }
void operator delete[](void* p) noexcept { std::free(p); }
void operator delete(void* p, std::size_t) noexcept { std::free(p); }
void operator delete[](void* p, std::size_t) noexcept { std::free(p); }

