// Conformance-harness side of the isolation protocol (see tools/vlib.py: run_isolated).
//
// A harness enumerates cases 0,1,2,... deterministically, skips those below --start, and before executing a
// case registers it with Proto::begin_case.  If the process is killed by a sanitizer, a signal or the watchdog,
// a handler prints one line
//     CRASHCASE {"case":k,"site":"...","detail":"..."}
// and the runner resumes at k+1.  Ordinary disagreements with the specification are printed as
//     MISMATCH {"site":"...","kind":"...","detail":"...","case":k}
// (at most a few per signature; all are counted).  The run ends with  SUMMARY {...}.
#pragma once
#include <sys/time.h>
#include <nlohmann/json.hpp>
#include <csignal>
#include <cstdio>
#include <cstdlib>
#include <cstring>
#include <iostream>
#include <map>
#include <new>
#include <string>
#include <unistd.h>

namespace Proto {
using json = nlohmann::json;

inline long long g_start = 0;
inline unsigned long long g_seed = 1;
inline long long g_case = -1;
inline char g_site[160];
inline char g_detail[1024];
inline std::map<std::string, long> g_sigCount;
inline long g_mismatches = 0;
inline int g_watchdog_s = 10;
inline void (*g_describe)() = nullptr;  // optional: fills g_site / g_detail lazily when a crash is reported

inline void crash_line(const char* why) {
	static bool once = false; if (once) return; once = true;
	if (g_describe) g_describe();
	char buf[1400];
	// no quotes or backslashes are ever put into g_site / g_detail (see begin_case)
	int n = snprintf(buf, sizeof buf, "\nCRASHCASE {\"case\":%lld,\"site\":\"%s\",\"detail\":\"%s\",\"why\":\"%s\"}\n", g_case, g_site, g_detail, why);
	if (n > 0) { ssize_t r = write(1, buf, (size_t)n); (void)r; }
}
inline void on_signal(int sig) {
	const bool timer = sig == SIGALRM || sig == SIGPROF;
	crash_line(timer ? "watchdog" : sig == SIGXFSZ ? "file-size-limit" : "signal");
	_exit(timer ? 124 : 128 + sig);
}
// "always returns": the limit is on the CPU time the process consumes (ITIMER_PROF), so that a loaded machine cannot turn a slow but
// terminating call into an alarm; a generous wall-clock alarm stays behind it for calls that block without consuming anything
inline void watchdog(unsigned seconds) {
	struct itimerval t; memset(&t, 0, sizeof t); t.it_value.tv_sec = seconds; setitimer(ITIMER_PROF, &t, nullptr);
	alarm(seconds ? seconds * 30 + 60 : 0);
}
inline void sanitize(char* dst, size_t cap, const std::string& s) {
	size_t j = 0;
	for (char c : s) { if (j + 1 >= cap) break; dst[j++] = (c == '"' || c == '\\' || (unsigned char)c < 32) ? '\'' : c; }
	dst[j] = 0;
}
inline void init(int argc, char** argv) {
	for (int i = 1; i + 1 < argc; ++i) {
		if (!strcmp(argv[i], "--start")) g_start = atoll(argv[i + 1]);
		if (!strcmp(argv[i], "--seed")) g_seed = strtoull(argv[i + 1], nullptr, 10);
		if (!strcmp(argv[i], "--watchdog")) g_watchdog_s = atoi(argv[i + 1]);
	}
	for (int s : {SIGSEGV, SIGBUS, SIGFPE, SIGILL, SIGABRT, SIGALRM, SIGPROF, SIGXFSZ}) signal(s, on_signal);
	std::cout.setf(std::ios::unitbuf);
}
// returns false if the case is to be skipped (below --start)
inline bool begin_case(long long k, const std::string& site, const std::string& detail) {
	if (k < g_start) return false;
	g_case = k;
	sanitize(g_site, sizeof g_site, site);
	sanitize(g_detail, sizeof g_detail, detail);
	watchdog((unsigned)g_watchdog_s);
	return true;
}
// cheap variant for hot loops: caller guarantees site/detail buffers were filled by fill_* below
inline bool begin_case_fast(long long k) { if (k < g_start) return false; g_case = k; return true; }
inline void mismatch(const std::string& site, const std::string& kind, const std::string& detail) {
	++g_mismatches;
	long& c = g_sigCount[site + "/" + kind];
	if (c++ < 3) std::cout << "MISMATCH " << json{{"site", site}, {"kind", kind}, {"detail", detail}, {"case", g_case}}.dump() << std::endl;
}
inline void summary(json j) {
	watchdog(0);
	j["mismatches"] = g_mismatches;
	json sc = json::object();
	for (auto& kv : g_sigCount) sc[kv.first] = kv.second;
	j["signature_counts"] = sc;
	std::cout << "SUMMARY " << j.dump() << std::endl;
}
}  // namespace Proto

// 64-bit values of the symbolic arguments used by the stream specifications
inline unsigned long long SymArg(const std::string& a) {
	if (a == "P31") return 1ull << 31;
	if (a == "P32") return 1ull << 32;
	if (a == "P63") return 1ull << 63;
	if (a == "MAX") return ~0ull;
	if (a[0] == 'W') return 0ull - std::stoull(a.substr(1));
	return std::stoull(a);
}
