// C19 (iv): the power-of-two test on all 2^32 inputs and the base-2 logarithm on the 32 powers, against the set of
// exponents exported by TLC (spec/MC_NamesExport.tla).  Built -O2 without sanitizers together with BitTwiddle.cpp so
// that the full sweep takes seconds; prints MISMATCH lines in the harness protocol.
//   pow2_walk 0,1,2,...,31
#include "BitTwiddle.h"
#include <cstdio>
#include <cstdlib>
#include <set>
#include <string>
int main(int argc, char** argv) {
	std::set<unsigned long long> pows; std::set<unsigned> exps; std::string x;
	for (char c : std::string(argc > 1 ? argv[1] : "") + ",") { if (c == ',') { if (!x.empty()) { unsigned k = (unsigned)atoi(x.c_str()); exps.insert(k); pows.insert(1ull << k); } x.clear(); } else x.push_back(c); }
	unsigned long long bad = 0, n = 0; unsigned first = 0;
	unsigned v = 0; do { bool want = pows.count(v) > 0; if (OP2Utility::IsPowerOf2(v) != want) { if (!bad) first = v; ++bad; } ++n; } while (++v != 0);
	if (bad) printf("MISMATCH {\"site\":\"IsPowerOf2\",\"kind\":\"value\",\"detail\":\"%llu inputs classified wrongly, first %u\",\"case\":0}\n", bad, first);
	for (unsigned k : exps) if (k < 32 && OP2Utility::Log2OfPowerOf2(1u << k) != k) printf("MISMATCH {\"site\":\"Log2OfPowerOf2\",\"kind\":\"value\",\"detail\":\"exponent %u gives %u\",\"case\":0}\n", k, OP2Utility::Log2OfPowerOf2(1u << k));
	printf("SUMMARY {\"evaluations\":%llu}\n", n + exps.size()); return 0; }
