// Pipeline G, behaviour export: executes TLC-generated scenarios (spec/Scen.tla vocabulary) against the real
// library inside a sandbox directory and compares every observation with the specification's expectation.
//   scen_run --scenarios <file.ndjson> --workdir DIR --prop C01 [--start K] [--skip-sites a,b]
#include "common/scen.hpp"
#include "Archive/VolFile.h"
#include "Archive/ClmFile.h"
#include "Bitmap/BitmapFile.h"
#include "Sprite/TilesetLoader.h"
#include "Sprite/ArtFile.h"
#include "ResourceManager.h"
#include "StringUtility.h"
#include "XFile.h"
#include "BitTwiddle.h"
#include "Map/Map.h"
#include "Map/CellType.h"
#include "Stream/MemoryReader.h"
#include "Stream/DynamicMemoryWriter.h"
// (AdaptiveHuffmanTree.h has no include guard; it arrives through VolFile.h -> HuffLZ.h)
#include <memory>
#include <sys/resource.h>
#include <sys/wait.h>
#include <fcntl.h>
#include <set>
#include <algorithm>
#include <functional>
using namespace OP2Utility; using json = nlohmann::json; namespace fs = std::filesystem;
static std::string ROOT, PROP, LOGPATH; static std::ofstream LOGF; static std::set<std::string> SKIP_SITES;
static std::string P(const json& codes) { return ROOT + "/" + Scen::str(codes); }
static std::string CURSCN;
struct Ctx { std::unique_ptr<Archive::VolFile> vol; std::unique_ptr<Archive::ClmFile> clm; Archive::ArchiveFile* arch() { return vol ? (Archive::ArchiveFile*)vol.get() : (Archive::ArchiveFile*)clm.get(); } };
template <class F> static bool throws(F f) { try { f(); return false; } catch (const std::exception&) { return true; } }
static std::vector<unsigned char> drain(Stream::BidirectionalReader& r) { std::vector<unsigned char> out; unsigned char buf[7]; for (;;) { std::size_t n = r.ReadPartial(buf, sizeof buf); if (!n) break; out.insert(out.end(), buf, buf + n); if (out.size() > (1u << 26)) break; } return out; }
// ---- adaptive Huffman tree (C15) -------------------------------------------------------------------------
static json huff_shape(Archive::AdaptiveHuffmanTree& t, unsigned n, int depth = 0) { if (depth > 700) throw std::logic_error("cycle"); if (t.IsLeaf(n)) return t.GetNodeData(n); return json::array({huff_shape(t, t.GetChildNode(n, false), depth + 1), huff_shape(t, t.GetChildNode(n, true), depth + 1)}); }
// decoder walk driven by the bit string the *encoder* reports (LSB = branch taken at the root)
static long huff_walk_encoded(Archive::AdaptiveHuffmanTree& t, unsigned code) { unsigned bc = 0; unsigned bs = t.GetEncodedBitString(code, bc); unsigned n = t.GetRootNodeIndex(); for (unsigned i = 0; i < bc; ++i) { if (t.IsLeaf(n)) return -2; n = t.GetChildNode(n, (bs >> i) & 1); } return t.IsLeaf(n) ? (long)t.GetNodeData(n) : -1; }
static bool huff_check(Archive::AdaptiveHuffmanTree& t, int N, const json& obs, const std::string& site, const std::function<std::string(const std::string&)>& where) {
	json shape; try { shape = huff_shape(t, t.GetRootNodeIndex()); } catch (const std::exception& e) { Proto::mismatch(site, "shape-unreadable", where(e.what())); return false; }
	if (shape != obs["shape"]) { Proto::mismatch(site, "shape", where("got " + shape.dump() + " want " + obs["shape"].dump())); return false; }
	for (int s = 0; s < N; ++s) { unsigned bc = 0; unsigned bs = t.GetEncodedBitString(s, bc); const json& p = obs["paths"][s]; bool same = bc == p.size(); for (unsigned i = 0; same && i < bc; ++i) same = ((bs >> i) & 1) == p[i].get<unsigned>();
		long leaf = huff_walk_encoded(t, s);
		if (leaf != s) { Proto::mismatch(site, "encode-does-not-drive-decode", where("symbol " + std::to_string(s) + " walks to " + std::to_string(leaf))); return false; }
		if (!same) { Proto::mismatch(site, "encoded-path", where("symbol " + std::to_string(s))); return false; } }
	return true; }
// ---- maps (C06, C16) ----------------------------------------------------------------------------------------
static std::vector<unsigned char> dyn_bytes(Stream::DynamicMemoryWriter& w) { auto r = w.GetReader(); std::vector<unsigned char> b(r.Length()); if (!b.empty()) r.Read(b.data(), b.size()); return b; }
static std::vector<unsigned char> map_bytes(const Map& m) { Stream::DynamicMemoryWriter w; m.Write(w); return dyn_bytes(w); }
static Map map_from(const std::vector<unsigned char>& b) { Stream::MemoryReader r(b.data(), b.size()); return Map::ReadMap(r); }
// ---- bitmaps and tilesets (C08, C09) ------------------------------------------------------------------------------
static std::vector<unsigned char> raw(const json& a) { std::vector<unsigned char> b; for (auto& x : a) b.push_back((unsigned char)x.get<int>()); return b; }
static std::vector<unsigned char> bmp_bytes(const BitmapFile& b) { Stream::DynamicMemoryWriter w; b.WriteIndexed(w); return dyn_bytes(w); }
static BitmapFile bmp_from(const std::vector<unsigned char>& b) { Stream::MemoryReader r(b.data(), b.size()); return BitmapFile::ReadIndexed(r); }
// ---- PRT sprite metadata (C10) -----------------------------------------------------------------------------------------
static ArtFile art_build(const json& v) { ArtFile a; a.unknownAnimationCount = v["unknownCount"];
	for (auto& p : v["palettes"]) { Palette8Bit pal; for (int i = 0; i < 256; ++i) pal[i] = Color{(uint8_t)p[i][0].get<int>(), (uint8_t)p[i][1].get<int>(), (uint8_t)p[i][2].get<int>(), (uint8_t)p[i][3].get<int>()}; a.palettes.push_back(pal); }
	for (auto& im : v["images"]) { ImageMeta m{}; m.scanLineByteWidth = im["scan"]; m.pixelDataOffset = im["off"]; m.height = im["h"]; m.width = im["w"]; uint16_t ty = im["type"]; memcpy(&m.type, &ty, 2); m.paletteIndex = im["pal"]; a.imageMetas.push_back(m); }
	for (auto& an : v["anims"]) { Animation A{}; auto b4 = [&](const json& x) { uint32_t r = 0; for (int i = 3; i >= 0; --i) r = (r << 8) | (uint32_t)x[i].get<int>(); return r; };
		A.unknown = b4(an["u1"]); A.unknown2 = b4(an["u2"]); std::vector<unsigned char> rect = raw(an["rect"]), disp = raw(an["disp"]); memcpy(&A.selectionRect, rect.data(), 16); memcpy(&A.pixelDisplacement, disp.data(), 8);
		for (auto& f : an["frames"]) { Animation::Frame fr{}; fr.layerMetadata.count = f["n1"].get<int>(); fr.layerMetadata.bReadOptionalData = f["o1"].get<int>(); fr.unknownBitfield.count = f["n2"].get<int>(); fr.unknownBitfield.bReadOptionalData = f["o2"].get<int>();
			fr.optional1 = f["o1"].get<int>() ? f["opt"][0].get<int>() : 0; fr.optional2 = f["o1"].get<int>() ? f["opt"][1].get<int>() : 0; fr.optional3 = f["o2"].get<int>() ? f["opt"][2].get<int>() : 0; fr.optional4 = f["o2"].get<int>() ? f["opt"][3].get<int>() : 0;
			for (auto& l : f["layers"]) { Animation::Frame::Layer L; auto lb = raw(l); memcpy(&L, lb.data(), 8); fr.layers.push_back(L); } A.frames.push_back(fr); }
		for (auto& u : an["unk"]) { Animation::UnknownContainer U; auto ub = raw(u); memcpy(&U, ub.data(), 16); A.unknownContainer.push_back(U); } a.animations.push_back(A); }
	return a; }
static std::vector<unsigned char> art_bytes(const ArtFile& a) { Stream::DynamicMemoryWriter w; a.Write(w); return dyn_bytes(w); }
// returns false when the scenario must stop (a mismatch was reported)
static bool step(Ctx& c, const json& s, int idx) {
	const std::string op = s["op"]; const std::string site = PROP + "." + op; auto where = [&](const std::string& extra) { return CURSCN + " step " + std::to_string(idx) + " " + op + " " + extra; };
	Proto::sanitize(Proto::g_site, sizeof Proto::g_site, site); Proto::sanitize(Proto::g_detail, sizeof Proto::g_detail, where(""));
	if (op == "mkdir") { fs::create_directories(P(s["path"])); return true; }
	if (op == "put") { Scen::spit(P(s["path"]), Scen::expand(s["segs"])); return true; }
	if (op == "file_eq") { auto got = Scen::slurp(P(s["path"])), want = Scen::expand(s["segs"]); if (!fs::is_regular_file(P(s["path"]))) { Proto::mismatch(site, "missing", where(Scen::str(s["path"]))); return false; } if (got != want) { Proto::mismatch(site, "bytes", where(Scen::str(s["path"]) + " " + Scen::hexdiff(got, want))); return false; } return true; }
	if (op == "file_absent") { if (fs::exists(P(s["path"]))) { Proto::mismatch(site, "present", where(Scen::str(s["path"]))); return false; } return true; }
	if (op == "vol_create") { std::vector<std::string> in; for (auto& p : s["inputs"]) in.push_back(P(p)); bool refused = throws([&] { Archive::VolFile::CreateArchive(P(s["out"]), in); }); bool want = s["expect"] == "refuse";
		if (refused != want) { Proto::mismatch(site, refused ? "refused-should-accept" : "accepted-should-refuse", where("")); return false; } return true; }
	if (op == "vol_open") { c.vol.reset(); bool err = throws([&] { c.vol = std::make_unique<Archive::VolFile>(P(s["path"])); }); if (err) { Proto::mismatch(site, "refused-should-accept", where("")); return false; }
		const json& L = s["listing"]; if (c.vol->GetCount() != L.size()) { Proto::mismatch(site, "count", where("count " + std::to_string(c.vol->GetCount()))); return false; }
		for (std::size_t i = 0; i < L.size(); ++i) { if (c.vol->GetName(i) != Scen::str(L[i]["name"])) { Proto::mismatch(site, "name", where("member " + std::to_string(i) + " is " + c.vol->GetName(i))); return false; }
			if (c.vol->GetSize(i) != L[i]["size"].get<uint32_t>()) { Proto::mismatch(site, "size", where("member " + std::to_string(i))); return false; }
			if ((int)c.vol->GetCompressionCode(i) != L[i]["kind"].get<int>()) { Proto::mismatch(site, "kind", where("member " + std::to_string(i))); return false; } }
		return true; }
	if (op == "vol_index") { const std::string n = Scen::str(s["name"]); long want = s["expect"]; long got = 9999; bool contains = c.arch()->Contains(n); try { got = (long)c.arch()->GetIndex(n); } catch (const std::exception&) { got = 9999; }
		if (got != want) { Proto::mismatch(site, "value", where(n + " -> " + std::to_string(got) + " want " + std::to_string(want))); return false; } if (contains != (want != 9999)) { Proto::mismatch(site, "contains-disagrees", where(n)); return false; } return true; }
	if (op == "vol_stream") { std::vector<unsigned char> got; bool err = throws([&] { auto r = c.arch()->OpenStream(s["i"].get<std::size_t>()); if (r->Length() != r->Length() || r->Position() != 0) throw std::logic_error("pos"); got = drain(*r); });
		bool want = s["expect"] == "err"; if (err != want) { Proto::mismatch(site, err ? "refused-should-accept" : "accepted-should-refuse", where("")); return false; }
		if (!err) { auto w = Scen::expand(s["segs"]); if (got != w) { Proto::mismatch(site, "bytes", where(Scen::hexdiff(got, w))); return false; } } return true; }
	if (op == "vol_extract" || op == "vol_extract_name") { std::string dest = P(s["dest"]); fs::create_directories(fs::path(dest).parent_path());
		bool err = throws([&] { if (op == "vol_extract") c.arch()->ExtractFile(s["i"].get<std::size_t>(), dest); else c.arch()->ExtractFile(Scen::str(s["name"]), dest); });
		if (err) { Proto::mismatch(site, "refused-should-accept", where("")); return false; } auto got = Scen::slurp(dest), w = Scen::expand(s["segs"]); if (got != w) { Proto::mismatch(site, "bytes", where(Scen::hexdiff(got, w))); return false; } return true; }
	if (op == "vol_extract_all") { std::string dir = P(s["dir"]); fs::create_directories(dir); if (throws([&] { c.arch()->ExtractAllFiles(dir); })) { Proto::mismatch(site, "refused-should-accept", where("")); return false; }
		for (std::size_t i = 0; i < c.arch()->GetCount(); ++i) { auto r = c.arch()->OpenStream(i); auto want = drain(*r); auto got = Scen::slurp(dir + "/" + c.arch()->GetName(i)); if (got != want) { Proto::mismatch(site, "bytes", where("member " + std::to_string(i))); return false; } } return true; }
	if (op == "vol_member_err") { std::size_t i = s["i"]; bool a = throws([&] { c.arch()->GetName(i); }), b = throws([&] { c.arch()->GetSize(i); }), d = throws([&] { c.arch()->OpenStream(i); }), e = throws([&] { c.arch()->ExtractFile(i, ROOT + "/oob.bin"); }), f = c.vol ? throws([&] { c.vol->GetCompressionCode(i); }) : true;
		if (!(a && b && d && e && f)) { Proto::mismatch(site, "accepted-should-refuse", where("index " + std::to_string(i))); return false; } return true; }
	if (op == "clm_create") { std::vector<std::string> in; for (auto& p : s["inputs"]) in.push_back(P(p)); bool refused = throws([&] { Archive::ClmFile::CreateArchive(P(s["out"]), in); }); bool want = s["expect"] == "refuse";
		if (refused != want) { Proto::mismatch(site, refused ? "refused-should-accept" : "accepted-should-refuse", where("")); return false; } return true; }
	if (op == "clm_open") { c.vol.reset(); c.clm.reset(); bool err = throws([&] { c.clm = std::make_unique<Archive::ClmFile>(P(s["path"])); }); if (err) { Proto::mismatch(site, "refused-should-accept", where("")); return false; }
		const json& L = s["listing"]; if (c.clm->GetCount() != L.size()) { Proto::mismatch(site, "count", where("count " + std::to_string(c.clm->GetCount()))); return false; }
		for (std::size_t i = 0; i < L.size(); ++i) { if (c.clm->GetName(i) != Scen::str(L[i]["name"])) { Proto::mismatch(site, "name", where("member " + std::to_string(i) + " is " + c.clm->GetName(i))); return false; } if (c.clm->GetSize(i) != L[i]["size"].get<uint32_t>()) { Proto::mismatch(site, "size", where("member " + std::to_string(i))); return false; } }
		return true; }
	if (op == "map_roundtrip") { auto in = Scen::expand(s["input"]), canon = Scen::expand(s["canon"]); Map m; if (throws([&] { m = map_from(in); })) { Proto::mismatch(site, "refused-should-accept", where("")); return false; }
		auto bad = [&](const std::string& what) { Proto::mismatch(site, "field", where(what)); return false; };
		if (m.WidthInTiles() != s["w"].get<uint32_t>()) return bad("width"); if (m.HeightInTiles() != s["h"].get<uint32_t>()) return bad("height"); if (m.GetVersionTag() != s["ver"].get<uint32_t>()) return bad("version");
		if (m.IsSavedGame() != s["saved"].get<bool>()) return bad("saved flag"); if (m.TileCount() != s["tiles"].get<std::size_t>()) return bad("tile count");
		if (m.tilesetSources.size() != s["nsrc"].get<std::size_t>() || m.tileMappings.size() != s["nmap"].get<std::size_t>() || m.terrainTypes.size() != s["nter"].get<std::size_t>() || m.tileGroups.size() != s["ngrp"].get<std::size_t>()) return bad("table sizes");
		auto out1 = map_bytes(m); if (out1 != canon) { Proto::mismatch(site, "bytes", where("first write " + Scen::hexdiff(out1, canon))); return false; }
		Map m2; if (throws([&] { m2 = map_from(out1); })) { Proto::mismatch(site, "reread-refused", where("")); return false; } auto out2 = map_bytes(m2); if (out2 != out1) { Proto::mismatch(site, "not-byte-stable", where(Scen::hexdiff(out2, out1))); return false; }
		return true; }
	if (op == "map_edits") { Map m; auto in = Scen::expand(s["input"]); if (throws([&] { m = map_from(in); })) { Proto::mismatch(site, "refused-should-accept", where("")); return false; } int k = 0;
		for (auto& e : s["edits"]) { const std::string kind = e["k"]; bool refused = false; auto w2 = [&](const std::string& x) { return where("edit " + std::to_string(k + 1) + " " + e.dump() + " " + x); };
			if (kind == "cell") { refused = throws([&] { m.SetCellType(static_cast<CellType>(e["c"].get<int>()), e["x"].get<std::size_t>(), e["y"].get<std::size_t>()); }); }
			else if (kind == "lava") m.SetLavaPossible(e["v"].get<int>() != 0, e["x"].get<std::size_t>(), e["y"].get<std::size_t>()); else if (kind == "ver") m.SetVersionTag(e["v"].get<uint32_t>()); else m.TrimTilesetSources();
			if (refused != s["refused"][k].get<bool>()) { Proto::mismatch(site + "/" + kind, refused ? "refused-should-accept" : "accepted-should-refuse", w2("")); return false; }
			auto got = map_bytes(m), want = Scen::expand(s["after"][k]); if (got != want) { Proto::mismatch(site + "/" + kind, "bytes", w2(Scen::hexdiff(got, want))); return false; }
			// accessor pairs are faithful: what was set is what is read
			if (kind == "cell" && !refused && (int)m.GetCellType(e["x"].get<std::size_t>(), e["y"].get<std::size_t>()) != e["c"].get<int>()) { Proto::mismatch(site + "/cell", "getter", w2("GetCellType returns " + std::to_string((int)m.GetCellType(e["x"].get<std::size_t>(), e["y"].get<std::size_t>())))); return false; }
			if (kind == "lava" && m.GetLavaPossible(e["x"].get<std::size_t>(), e["y"].get<std::size_t>()) != (e["v"].get<int>() != 0)) { Proto::mismatch(site + "/lava", "getter", w2("")); return false; }
			if (kind == "ver" && m.GetVersionTag() != e["v"].get<uint32_t>()) { Proto::mismatch(site + "/ver", "getter", w2("")); return false; }
			++k; }
		return true; }
	if (op == "map_probe") { uint32_t lg = s["lg"], h = s["h"]; uint32_t w = 1u << lg; std::size_t n = (std::size_t)w * h;
		// image: tile i carries mapping index i % 2048, cell type i % 32 and lavaPossible = parity of i / 7
		std::vector<unsigned char> img; auto le32 = [&](uint32_t v) { for (int i = 0; i < 4; ++i) img.push_back((unsigned char)(v >> (8 * i))); };
		le32(0x1011); le32(0); le32(lg); le32(h); le32(0); for (std::size_t i = 0; i < n; ++i) le32((uint32_t)(i % 32) | ((uint32_t)(i % 2048) << 5) | ((uint32_t)((i / 7) & 1) << 28));
		for (int i = 0; i < 16; ++i) img.push_back(0); for (char ch : std::string("TILE SET\x1a", 9)) img.push_back((unsigned char)ch); img.push_back(0); le32(0); le32(0); le32(0x1011); le32(0x1011); le32(0); le32(0);
		Map m; if (throws([&] { m = map_from(img); })) { Proto::mismatch(site, "refused-should-accept", where("")); return false; }
		if (m.WidthInTiles() != w || m.HeightInTiles() != h || m.TileCount() != n) { Proto::mismatch(site, "dimensions", where("")); return false; }
		for (auto& pr : s["probes"]) { std::size_t x = pr["x"], y = pr["y"], idx = pr["idx"];
			if (m.GetTileMappingIndex(x, y) != idx % 2048) { Proto::mismatch(site, "addressing", where("(" + std::to_string(x) + "," + std::to_string(y) + ") reads mapping " + std::to_string(m.GetTileMappingIndex(x, y)) + " want tile " + std::to_string(idx))); return false; }
			if ((std::size_t)(int)m.GetCellType(x, y) != idx % 32) { Proto::mismatch(site, "cell-type-read", where("(" + std::to_string(x) + "," + std::to_string(y) + ") reads " + std::to_string((int)m.GetCellType(x, y)) + " want " + std::to_string(idx % 32))); return false; }
			if (m.GetLavaPossible(x, y) != (((idx / 7) & 1) != 0)) { Proto::mismatch(site, "lava-read", where("")); return false; } }
		// monitor of the specification's Bijective invariant on the implementation: visiting every coordinate through a
		// setter must mark every tile exactly once
		if (n <= (1u << 18)) {
			Map z = map_from(img); for (auto& t : z.tiles) { t.bLavaPossible = 0; t.bLava = 0; }
			for (std::size_t y = 0; y < h; ++y) for (std::size_t x = 0; x < w; ++x) { if (z.GetLavaPossible(x, y)) { Proto::mismatch(site, "not-injective", where("(" + std::to_string(x) + "," + std::to_string(y) + ") addresses a tile already visited")); return false; } z.SetLavaPossible(true, x, y); }
			for (std::size_t i = 0; i < n; ++i) if (!z.tiles[i].bLavaPossible) { Proto::mismatch(site, "not-surjective", where("tile " + std::to_string(i) + " never addressed")); return false; } }
		return true; }
	if (op == "bmp_roundtrip") { auto in = raw(s["input"]), canon = raw(s["canon"]), flip = raw(s["flip"]); BitmapFile b; if (throws([&] { b = bmp_from(in); })) { Proto::mismatch(site, "refused-should-accept", where("")); return false; }
		auto bad = [&](const std::string& what) { Proto::mismatch(site, "field", where(what)); return false; };
		if (throws([&] { b.Validate(); })) return bad("Validate() refuses what ReadIndexed returned");
		if (b.imageHeader.width != s["w"].get<int>() || b.imageHeader.height != s["h"].get<int>() || b.imageHeader.bitCount != s["bc"].get<int>()) return bad("geometry");
		if (b.imageHeader.width < 0) return bad("negative width"); if (b.palette.size() != s["npal"].get<std::size_t>()) return bad("palette length " + std::to_string(b.palette.size()));
		if (b.pixels.size() != s["rows"].get<std::size_t>() * s["pitch"].get<std::size_t>() || b.AbsoluteHeight() != s["rows"].get<uint32_t>()) return bad("rows x pitch");
		std::vector<unsigned char> out; if (throws([&] { out = bmp_bytes(b); })) { Proto::mismatch(site, "write-refused", where("")); return false; } if (out != canon) { Proto::mismatch(site, "bytes", where("written " + Scen::hexdiff(out, canon))); return false; }
		BitmapFile b2; if (throws([&] { b2 = bmp_from(out); })) { Proto::mismatch(site, "reread-refused", where("")); return false; }
		if (b2.imageHeader.width != b.imageHeader.width || b2.imageHeader.height != b.imageHeader.height || b2.imageHeader.bitCount != b.imageHeader.bitCount) return bad("geometry after reread");
		for (std::size_t i = 0; i < b.palette.size(); ++i) if (i >= b2.palette.size() || !(b2.palette[i] == b.palette[i])) return bad("palette entry " + std::to_string(i) + " after reread");
		if (bmp_bytes(b2) != out) { Proto::mismatch(site, "not-byte-stable", where("")); return false; }
		BitmapFile f = b; f.InvertScanLines(); if (f.imageHeader.height != -b.imageHeader.height) return bad("flip does not negate the height"); if (bmp_bytes(f) != flip) { Proto::mismatch(site + "/flip", "bytes", where(Scen::hexdiff(bmp_bytes(f), flip))); return false; }
		f.InvertScanLines(); if (!(f == b)) { Proto::mismatch(site + "/flip", "twice-is-not-identity", where("")); return false; } return true; }
	if (op == "bmp_factory") { BitmapFile b; if (throws([&] { b = BitmapFile::CreateIndexed(s["bc"].get<uint16_t>(), s["w"].get<uint32_t>(), s["h"].get<int32_t>()); })) { Proto::mismatch(site, "refused-should-accept", where("")); return false; }
		auto out = bmp_bytes(b), want = raw(s["image"]); if (out != want) { Proto::mismatch(site, "bytes", where(Scen::hexdiff(out, want))); return false; } BitmapFile b2; if (throws([&] { b2 = bmp_from(out); }) || !(b2 == b)) { Proto::mismatch(site, "round-trip-not-equal", where("")); return false; } return true; }
	if (op == "tileset") { auto asBmp = raw(s["bmp"]), custom = raw(s["custom"]), top = raw(s["top"]);
		for (int which = 0; which < 2; ++which) { const auto& src = which ? custom : asBmp; const std::string sub = which ? "/from-custom" : "/from-bmp"; BitmapFile b; Stream::MemoryReader r(src.data(), src.size());
			if (throws([&] { b = Tileset::ReadTileset(r); })) { Proto::mismatch(site + sub, "refused-should-accept", where("")); return false; }
			if (which == 1 && b.imageHeader.height > 0) { Proto::mismatch(site + sub, "not-top-down", where("")); return false; }
			BitmapFile t = b; if (t.GetScanLineOrientation() == ScanLineOrientation::BottomUp) t.InvertScanLines();       // compare as pictures
			if (bmp_bytes(t) != top) { Proto::mismatch(site + sub, "picture", where(Scen::hexdiff(bmp_bytes(t), top))); return false; }
			Stream::DynamicMemoryWriter w; if (throws([&] { Tileset::WriteCustomTileset(w, b); })) { Proto::mismatch(site + sub, "save-refused", where("")); return false; } if (dyn_bytes(w) != custom) { Proto::mismatch(site + sub, "custom-bytes", where(Scen::hexdiff(dyn_bytes(w), custom))); return false; } }
		return true; }
	if (op == "tileset_bad") { auto src = raw(s["bmp"]); Stream::MemoryReader r(src.data(), src.size()); if (!throws([&] { Tileset::ReadTileset(r); })) { Proto::mismatch(site + "/load", "accepted-should-refuse", where("")); return false; }
		BitmapFile b = bmp_from(src); Stream::DynamicMemoryWriter w; if (!throws([&] { Tileset::WriteCustomTileset(w, b); })) { Proto::mismatch(site + "/save", "accepted-should-refuse", where("")); return false; } return true; }
	if (op == "ts_detect") { auto src = raw(s["bytes"]); Stream::MemoryReader r(src.data(), src.size()); r.Seek(s["pos"].get<uint64_t>()); bool got = Tileset::PeekIsCustomTileset(r); if (got != s["expect"].get<bool>()) { Proto::mismatch(site, "value", where("")); return false; } if (r.Position() != s["pos"].get<uint64_t>()) { Proto::mismatch(site, "moved-the-stream", where("")); return false; } return true; }
	if (op == "prt_roundtrip") { auto in = raw(s["input"]), canon = raw(s["canon"]); ArtFile a; Stream::MemoryReader r(in.data(), in.size()); if (throws([&] { a = ArtFile::Read(r); })) { Proto::mismatch(site, "refused-should-accept", where("")); return false; }
		if (r.Position() != in.size()) { Proto::mismatch(site, "consumed", where("consumed " + std::to_string(r.Position()) + " of " + std::to_string(in.size()))); return false; }
		// the parsed structure equals the logical value (compared through the specification's own encoding of it)
		ArtFile ref = art_build(s["value"]); if (art_bytes(ref) != canon) { Proto::mismatch(site + "/build", "bytes", where("harness-built value does not encode to the canonical bytes")); return false; }
		const json& v = s["value"]; if (a.palettes.size() != v["palettes"].size() || a.imageMetas.size() != v["images"].size() || a.animations.size() != v["anims"].size() || a.unknownAnimationCount != v["unknownCount"].get<uint32_t>()) { Proto::mismatch(site, "field", where("top-level counts")); return false; }
		for (std::size_t p = 0; p < a.palettes.size(); ++p) for (int i = 0; i < 256; ++i) { const json& c = v["palettes"][p][i]; const Color& g = a.palettes[p][i]; if (g.red != c[0].get<int>() || g.green != c[1].get<int>() || g.blue != c[2].get<int>() || g.alpha != c[3].get<int>()) { Proto::mismatch(site, "palette-channel-order", where("palette " + std::to_string(p) + " entry " + std::to_string(i))); return false; } }
		auto before = art_bytes(a); if (before != canon) { Proto::mismatch(site, "bytes", where(Scen::hexdiff(before, canon))); return false; }
		auto again = art_bytes(a); if (again != before) { Proto::mismatch(site, "write-altered-the-object", where("")); return false; }
		ArtFile a2; Stream::MemoryReader r2(before.data(), before.size()); if (throws([&] { a2 = ArtFile::Read(r2); }) || art_bytes(a2) != before) { Proto::mismatch(site, "not-byte-stable", where("")); return false; } return true; }
	if (op == "prt_write") { ArtFile a = art_build(s["value"]); std::vector<unsigned char> out; bool refused = throws([&] { out = art_bytes(a); }); bool want = s["expect"] == "refuse";
		if (refused != want) { Proto::mismatch(site, refused ? "refused-should-accept" : "accepted-should-refuse", where("")); return false; } if (!refused && out != raw(s["canon"])) { Proto::mismatch(site, "bytes", where("")); return false; } return true; }
	if (op == "resmgr") { const std::string root = ROOT + "/root", src = ROOT + "/src"; fs::create_directories(root + "/sub"); fs::create_directories(root + "/dir.vol"); fs::create_directories(root + "/dir.clm"); fs::create_directories(src);
		auto content = [&](long id) { std::vector<unsigned char> b; for (int j = 0; j < 6 + id % 5; ++j) b.push_back(Scen::blob_byte(id, j)); return b; };
		for (auto& f : s["loose"]) Scen::spit(root + "/" + Scen::str(f["name"]), content(f["blob"]));
		int vi = 0; for (auto& a : s["vols"]) { std::vector<std::string> in; std::string d = src + "/v" + std::to_string(vi++); for (auto& m : a["members"]) { Scen::spit(d + "/" + Scen::str(m["name"]), content(m["blob"])); in.push_back(d + "/" + Scen::str(m["name"])); } Archive::VolFile::CreateArchive(root + "/" + Scen::str(a["file"]), in); }
		auto le = [](std::vector<unsigned char>& o, uint32_t v, int n) { for (int i = 0; i < n; ++i) o.push_back((unsigned char)(v >> (8 * i))); };
		for (auto& a : s["clms"]) { std::vector<std::string> in; for (auto& m : a["members"]) { auto data = content(m["blob"]); std::vector<unsigned char> w; auto tag = [&](const char* t) { w.insert(w.end(), t, t + 4); }; tag("RIFF"); le(w, 36 + (uint32_t)data.size(), 4); tag("WAVE"); tag("fmt "); le(w, 16, 4); le(w, 1, 2); le(w, 1, 2); le(w, 22050, 4); le(w, 44100, 4); le(w, 2, 2); le(w, 16, 2); tag("data"); le(w, (uint32_t)data.size(), 4); w.insert(w.end(), data.begin(), data.end());
				std::string p = src + "/" + Scen::str(m["name"]) + ".wav"; Scen::spit(p, w); in.push_back(p); } Archive::ClmFile::CreateArchive(root + "/" + Scen::str(a["file"]), in); }
		ResourceManager rm(root); auto loaded = rm.GetArchiveFilenames();
		// the load order is an input: pick the specification's answers for the order the implementation reports
		const json* ans = nullptr; for (auto& A : s["answers"]) { bool same = A["order"].size() == loaded.size(); for (std::size_t i = 0; same && i < loaded.size(); ++i) same = fs::path(loaded[i]).filename().string() == Scen::str(A["order"][i]); if (same) { ans = &A; break; } }
		if (!ans) { std::string l; for (auto& x : loaded) l += x + " "; Proto::mismatch(site + "/load", "order", where("loaded: " + l)); return false; }
		for (std::size_t q = 0; q < s["queries"].size(); ++q) { const std::string name = Scen::str(s["queries"][q]); const json& R = (*ans)["res"][q];
			for (int arch = 1; arch >= 0; --arch) { const json& want = arch ? R["withArch"] : R["noArch"]; std::string kind; std::vector<unsigned char> got;
				try { auto st = rm.GetResourceStream(name, arch != 0); if (!st) kind = "none"; else { kind = "bytes"; got = drain(*st); } } catch (const std::exception&) { kind = "refused"; }
				if (kind != want["kind"].get<std::string>()) { Proto::mismatch(site + "/GetResourceStream", "kind", where(name + " archives=" + std::to_string(arch) + " -> " + kind + " want " + want["kind"].get<std::string>())); return false; }
				if (kind == "bytes" && got != content(want["blob"])) { Proto::mismatch(site + "/GetResourceStream", "bytes", where(name + " archives=" + std::to_string(arch) + " delivers the wrong source, want blob " + want["blob"].dump())); return false; } }
			const std::string cont = Scen::str(R["containing"]); if (cont != "?") { std::string got = rm.FindContainingArchivePath(name); if ((got.empty() ? std::string() : fs::path(got).filename().string()) != cont) { Proto::mismatch(site + "/FindContainingArchivePath", "value", where(name + " -> " + got + " want " + cont)); return false; } } }
		auto cmpList = [&](std::vector<std::string> got, const json& want, const std::string& what) { std::vector<std::string> w; for (auto& x : want) w.push_back(Scen::str(x)); std::sort(got.begin(), got.end()); std::sort(w.begin(), w.end()); if (got != w) { std::string g; for (auto& x : got) g += x + " "; std::string ww; for (auto& x : w) ww += x + " "; Proto::mismatch(site + "/" + what, "listing", where("got [" + g + "] want [" + ww + "]")); return false; } return true; };
		if (!cmpList(rm.GetAllFilenamesOfType(".txt"), (*ans)["txt"], "GetAllFilenamesOfType")) return false; if (!cmpList(rm.GetAllFilenamesOfType(".txt", false), (*ans)["txtLoose"], "GetAllFilenamesOfType")) return false; if (!cmpList(rm.GetAllFilenamesOfType(".map"), (*ans)["map"], "GetAllFilenamesOfType")) return false;
		return true; }
	if (op == "names_rel") { for (auto& p : s["pairs"]) { const std::string a = Scen::str(p["a"]), b = Scen::str(p["b"]); bool less = StringUtility::IsEqualCaseInsensitive(a, b), eq = StringUtility::IsEqual(a, b);
			if (less != p["less"].get<bool>()) { Proto::mismatch(site + "/comes-before", "value", where("'" + a + "' < '" + b + "' is " + std::to_string(less))); return false; }
			if (eq != p["eq"].get<bool>()) { Proto::mismatch(site + "/equal-ignoring-case", "value", where("'" + a + "' = '" + b + "' is " + std::to_string(eq))); return false; } } return true; }
	if (op == "pow2") { std::set<uint32_t> pows; for (auto& k : s["exponents"]) pows.insert(1u << k.get<unsigned>()); uint32_t v = 0; do { if (IsPowerOf2(v) != (pows.count(v) > 0)) { Proto::mismatch(site + "/IsPowerOf2", "value", where(std::to_string(v))); return false; } } while (++v != 0);
		for (auto& k : s["exponents"]) if (Log2OfPowerOf2(1u << k.get<unsigned>()) != k.get<unsigned>()) { Proto::mismatch(site + "/Log2OfPowerOf2", "value", where(k.dump())); return false; } return true; }
	if (op == "robust_vol") { std::string path = ROOT + "/t.vol"; auto img = raw(s["image"]); Scen::spit(path, img);
		auto log = [&](const json& e) { LOGF << e.dump() << "\n"; LOGF.flush(); };
		log({{"e", "Reset"}, {"image", s["image"]}, {"scenario", CURSCN}});
		auto capped = [](std::vector<unsigned char> b) { if (b.size() > 4096) b.resize(4096); return json(b); };
		// one call on a given object -> (ok, val)
		auto doCall = [&](Archive::VolFile& v, const std::string& call, std::size_t i) -> std::pair<bool, json> { try {
				if (call == "GetCount") return {true, (long)v.GetCount()}; if (call == "GetName") { std::string n = v.GetName(i); return {true, json(std::vector<unsigned char>(n.begin(), n.end()))}; }
				if (call == "GetSize") return {true, std::to_string(v.GetSize(i))};
				if (call == "OpenStream") { auto st = v.OpenStream(i); return {true, capped(drain(*st))}; }
				if (call == "Extract") { std::string d = ROOT + "/ex.bin"; fs::remove(d); v.ExtractFile(i, d); return {true, capped(Scen::slurp(d))}; }
			} catch (const std::exception&) { return {false, 0}; } return {false, 0}; };
		std::unique_ptr<Archive::VolFile> longLived; bool opened = true; try { longLived = std::make_unique<Archive::VolFile>(path); } catch (const std::exception&) { opened = false; }
		log({{"e", "Call"}, {"obj", "long"}, {"call", "Open"}, {"i", 0}, {"key", "Open"}, {"ok", opened}, {"val", 0}});
		{ bool again = true; try { Archive::VolFile f(path); } catch (const std::exception&) { again = false; } log({{"e", "Call"}, {"obj", "fresh"}, {"call", "Open"}, {"i", 0}, {"key", "Open"}, {"ok", again}, {"val", 0}}); }
		if (!opened) return true;
		for (auto& c : s["calls"]) { const std::string call = c["call"]; std::size_t i = c["i"]; const std::string key = call + ":" + std::to_string(i);
			Proto::sanitize(Proto::g_detail, sizeof Proto::g_detail, where(key));
			auto a = doCall(*longLived, call, i); log({{"e", "Call"}, {"obj", "long"}, {"call", call}, {"i", i}, {"key", key}, {"ok", a.first}, {"val", a.second}});
			Archive::VolFile fresh(path); auto b = doCall(fresh, call, i); log({{"e", "Call"}, {"obj", "fresh"}, {"call", call}, {"i", i}, {"key", key}, {"ok", b.first}, {"val", b.second}}); }
		return true; }
	if (op == "vol_limit" || op == "clm_limit") { const bool vol = op == "vol_limit"; const bool wantRefuse = s["expect"] == "refuse"; static const bool thorough = getenv("VERIF_TIER") && std::string(getenv("VERIF_TIER")) == "thorough";
		if (!wantRefuse && !thorough) return true;                                   // must-accept neighbours really copy gigabytes: thorough tier only
		std::vector<std::string> in; int k = 0; for (auto& sz : s["sizes"]) { unsigned long long n = std::stoull(sz.get<std::string>()); std::string p = ROOT + "/" + std::string(1, (char)('a' + k++)) + (vol ? "" : ".wav");
			int fd = open(p.c_str(), O_CREAT | O_WRONLY | O_TRUNC, 0644); if (fd < 0) { Proto::mismatch(site, "harness-io", where(p)); return false; }
			unsigned long long total = n;
			if (!vol) { unsigned char h[44]; auto le = [&](int o, unsigned long long v, int b) { for (int i = 0; i < b; ++i) h[o + i] = (unsigned char)(v >> (8 * i)); }; memcpy(h, "RIFF", 4); le(4, 36 + n, 4); memcpy(h + 8, "WAVEfmt ", 8); le(16, 16, 4); le(20, 1, 2); le(22, 1, 2); le(24, 22050, 4); le(28, 44100, 4); le(32, 2, 2); le(34, 16, 2); memcpy(h + 36, "data", 4); le(40, n, 4); if (write(fd, h, 44) != 44) { close(fd); return false; } total = n + 44; }
			if (ftruncate(fd, (off_t)total) != 0) { close(fd); Proto::mismatch(site, "harness-io", where("ftruncate")); return false; } close(fd); in.push_back(p); }
		const std::string out = ROOT + "/out.bin"; const std::vector<unsigned char> pre{9, 8, 7}; Scen::spit(out, pre);
		std::cout.flush(); pid_t pid = fork();
		if (pid == 0) { alarm(wantRefuse ? 20 : 600); struct rlimit rl; rl.rlim_cur = rl.rlim_max = wantRefuse ? (64ull << 20) : RLIM_INFINITY; setrlimit(RLIMIT_FSIZE, &rl); signal(SIGXFSZ, SIG_DFL); signal(SIGALRM, SIG_DFL);
			try { if (vol) Archive::VolFile::CreateArchive(out, in); else Archive::ClmFile::CreateArchive(out, in); } catch (const std::exception&) { _exit(10); } _exit(11); }
		int st = 0; waitpid(pid, &st, 0); bool refused = WIFEXITED(st) && WEXITSTATUS(st) == 10, accepted = WIFEXITED(st) && WEXITSTATUS(st) == 11;
		bool cut = WIFSIGNALED(st) && (WTERMSIG(st) == SIGXFSZ || WTERMSIG(st) == SIGALRM);
		auto cleanup = [&] { for (auto& p : in) fs::remove(p); fs::remove(out); };
		if (wantRefuse) { if (!refused) { Proto::mismatch(site, cut || accepted ? "accepted-should-refuse" : "crash", where("sizes " + s["sizes"].dump() + (cut ? " (writing was cut short by the file-size limit)" : ""))); cleanup(); return false; }
			if (vol && Scen::slurp(out) != pre) { Proto::mismatch(site, "destination-altered"   /* the property promises an untouched destination for volume archives only */, where("sizes " + s["sizes"].dump())); cleanup(); return false; } }
		else if (!accepted) { Proto::mismatch(site, refused ? "refused-should-accept" : "crash", where("sizes " + s["sizes"].dump())); cleanup(); return false; }
		cleanup(); return true; }
	if (op == "save_equiv") { auto sv = Scen::expand(s["save"]), mp = Scen::expand(s["map"]); Map a, b; Stream::MemoryReader rs(sv.data(), sv.size());
		if (throws([&] { a = Map::ReadSavedGame(rs); })) { Proto::mismatch(site, "refused-should-accept", where("saved game")); return false; } if (throws([&] { b = map_from(mp); })) { Proto::mismatch(site, "refused-should-accept", where("map")); return false; }
		if (rs.Position() != sv.size()) { Proto::mismatch(site, "consumed", where(std::to_string(rs.Position()) + " of " + std::to_string(sv.size()))); return false; }
		// same dimensions, tiles, clip rectangle, sources, mappings, terrain types: compared through the map serialisation with the groups dropped
		a.tileGroups.clear(); b.tileGroups.clear(); if (map_bytes(a) != map_bytes(b)) { Proto::mismatch(site, "fields-differ", where(Scen::hexdiff(map_bytes(a), map_bytes(b)))); return false; } return true; }
	if (op == "vol_ref") { std::string path = ROOT + "/ref.vol"; Scen::spit(path, raw(s["image"])); std::unique_ptr<Archive::VolFile> v; if (throws([&] { v = std::make_unique<Archive::VolFile>(path); })) { Proto::mismatch(site + "/open", "refused-should-accept", where("")); return false; }
		const json& L = s["listing"]; if (v->GetCount() != L.size()) { Proto::mismatch(site + "/open", "count", where("count " + std::to_string(v->GetCount()) + " want " + std::to_string(L.size()))); return false; }
		for (std::size_t i = 0; i < L.size(); ++i) { auto w2 = [&](const std::string& e) { return where("member " + std::to_string(i) + " " + e); };
			if (v->GetName(i) != Scen::str(L[i]["name"])) { Proto::mismatch(site, "name", w2(v->GetName(i))); return false; } if (v->GetSize(i) != L[i]["size"].get<uint32_t>()) { Proto::mismatch(site, "size", w2("")); return false; } if ((int)v->GetCompressionCode(i) != L[i]["kind"].get<int>()) { Proto::mismatch(site, "kind", w2("")); return false; }
			std::vector<unsigned char> got; if (throws([&] { auto st = v->OpenStream(i); got = drain(*st); })) { Proto::mismatch(site + "/stream", "refused-should-accept", w2("")); return false; } if (got != raw(L[i]["stored"])) { Proto::mismatch(site + "/stream", "bytes", w2(Scen::hexdiff(got, raw(L[i]["stored"])))); return false; }
			std::string d = ROOT + "/x" + std::to_string(i); if (throws([&] { v->ExtractFile(i, d); })) { Proto::mismatch(site + "/extract", "refused-should-accept", w2("")); return false; } auto ex = Scen::slurp(d), want = raw(L[i]["plain"]); if (ex != want) { Proto::mismatch(site + (L[i]["kind"].get<int>() == 259 ? "/extract-lzh" : "/extract"), "bytes", w2(Scen::hexdiff(ex, want))); return false; } }
		if (!throws([&] { v->GetName(L.size()); })) { Proto::mismatch(site, "accepted-should-refuse", where("index = count (an unused slot)")); return false; } return true; }
	if (op == "huff_seq") { int N = s["n"]; Archive::AdaptiveHuffmanTree t(N); if (!huff_check(t, N, s["init"], site + "/fresh", where)) return false; int k = 0;
		for (auto& u : s["seq"]) { ++k; unsigned x = u["x"]; bool ok = !throws([&] { t.UpdateCodeCount(x); }); auto w2 = [&](const std::string& e) { return where("after " + std::to_string(k) + " updates, last " + std::to_string(x) + " " + e); };
			if (ok != u["ok"].get<bool>()) { Proto::mismatch(site + (x >= (unsigned)N ? "/out-of-range" : "/update"), ok ? "accepted-should-refuse" : "refused-should-accept", w2("")); return false; }
			if (!huff_check(t, N, u["obs"], site + (ok ? "/update" : "/refused"), w2)) return false; }
		// node indices beyond the tree are refused by every accessor
		unsigned bad = 2 * N - 1; if (!(throws([&] { t.IsLeaf(bad); }) && throws([&] { t.GetChildNode(bad, false); }) && throws([&] { t.GetNodeData(bad); }))) { Proto::mismatch(site + "/node-index", "accepted-should-refuse", where("")); return false; }
		return true; }
	if (op == "lzh") { std::vector<unsigned char> in; for (auto& b : s["bytes"]) in.push_back((unsigned char)b.get<int>()); std::vector<unsigned char> want; for (auto& b : s["out"]) want.push_back((unsigned char)b.get<int>());
		Archive::HuffLZ z(Archive::BitStreamReader(in.data(), in.size())); std::vector<unsigned char> got; std::vector<char> buf(20000); int ci = 0;
		auto call = [&](const std::string& k, std::size_t n) -> bool { ++ci; std::size_t remaining = want.size() >= got.size() ? want.size() - got.size() : 0; auto w2 = [&](const std::string& e) { return where("call " + std::to_string(ci) + " " + k + "(" + std::to_string(n) + ") delivered so far " + std::to_string(got.size()) + " " + e); };
			if (k == "data") { std::size_t c = z.GetData(buf.data(), n); std::size_t exp = n < remaining ? n : remaining; if (c != exp) { Proto::mismatch(site + "/GetData", "count", w2("returned " + std::to_string(c) + " want " + std::to_string(exp))); return false; } got.insert(got.end(), buf.begin(), buf.begin() + c); }
			else { std::size_t c = 0; const char* p = z.GetInternalBuffer(&c); if ((remaining == 0) != (c == 0) || c > remaining || c > 4096) { Proto::mismatch(site + "/GetInternalBuffer", "count", w2("returned " + std::to_string(c) + " with " + std::to_string(remaining) + " outstanding")); return false; } got.insert(got.end(), p, p + c); }
			if (got.size() > want.size() || !std::equal(got.begin(), got.end(), want.begin())) { Proto::mismatch(site + (k == "data" ? "/GetData" : "/GetInternalBuffer"), "bytes", w2(Scen::hexdiff(got, want))); return false; } return true; };
		for (auto& c : s["sched"]) if (!call(c["k"], c["n"].get<std::size_t>())) return false;
		for (int guard = 0; got.size() < want.size() && guard < 100000; ++guard) if (!call("data", 4096)) return false;
		if (!call("data", 7)) return false;                                              // at the end: nothing more, ever
		{ std::size_t c = 1; z.GetInternalBuffer(&c); if (c != 0) { Proto::mismatch(site + "/GetInternalBuffer", "count", where("data after the end")); return false; } }
		return true; }
	Proto::mismatch(site, "unknown-op", where("")); return false; }
int main(int argc, char** argv) {
	Proto::init(argc, argv); std::string path, work;
	for (int i = 1; i + 1 < argc; ++i) { std::string a = argv[i], v = argv[i + 1]; if (a == "--scenarios") path = v; else if (a == "--workdir") work = v; else if (a == "--prop") PROP = v; else if (a == "--log") { LOGPATH = v; LOGF.open(v, std::ios::app); }
		else if (a == "--skip-sites") { std::string x; for (char ch : v + ",") { if (ch == ',') { if (!x.empty()) SKIP_SITES.insert(x); x.clear(); } else x.push_back(ch); } } }
	std::ifstream f(path); std::string line; long long k = 0, executed = 0, steps = 0;
	while (std::getline(f, line)) { if (line.empty()) continue; long long id = k++; if (id < Proto::g_start) continue;
		json sc = json::parse(line); CURSCN = "scenario " + std::to_string(id) + " id=" + sc["id"].dump();
		if (!Proto::begin_case(id, PROP + ".scenario", CURSCN)) continue;
		ROOT = work + "/s" + std::to_string(id); fs::remove_all(ROOT); fs::create_directories(ROOT);
		{ Ctx c; int idx = 0; for (auto& s : sc["steps"]) { ++steps; if (!step(c, s, idx++)) break; } }
		fs::remove_all(ROOT); ++executed; }
	Proto::summary({{"scenarios", executed}, {"cases", k}, {"steps", steps}}); return 0; }
