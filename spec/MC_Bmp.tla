---- MODULE MC_Bmp ----
(* Bounded instance for C08 (bitmaps) and C09 (tilesets). *)
EXTENDS Tileset, Rand
CONSTANTS MaxWidth, Seed, NRand
VARIABLES fam, par
vars == <<fam, par>>
Row(w, bc, seed) == [i \in 1..Pitch(w, bc) |-> ((seed * 37 + i * 11) % 255) + 1]        \* non-zero everywhere, padding included
Pal(np, seed) == [i \in 1..np |-> <<(i + seed) % 256, (2 * i) % 256, (510 - i) % 256, seed % 256>>]
B(w, h, bc, np, seed) == [w |-> w, h |-> h, bc |-> bc, palette |-> Pal(np, seed), rows |-> [r \in 1..Abs(h) |-> Row(w, bc, r + seed)]]
TS(h, seed) == [w |-> 32, h |-> h, bc |-> 8, palette |-> [i \in 1..256 |-> <<(i - 1 + seed) % 256, (255 - (i - 1)) % 256, ((i - 1) \div 2) % 256, (i * 5 + seed) % 256>>],     \* all four bytes of an entry are arbitrary
                rows |-> [r \in 1..Abs(h) |-> [i \in 1..32 |-> (r * 3 + i + seed) % 256]]]
Emit(id, steps) == PrintT("S|" \o ToJson([id |-> id, steps |-> steps]))
\* read a foreign image (used colours possibly > 0), expect the canonical re-encoding and the flipped one
BmpRT(b, used) == [op |-> "bmp_roundtrip", input |-> ImageWith(b, used), canon |-> Encode(b), flip |-> Encode(Flip(b)),
                   w |-> b.w, h |-> b.h, bc |-> b.bc, npal |-> Len(b.palette), rows |-> Abs(b.h), pitch |-> Pitch(b.w, b.bc)]
Factory(w, h, bc) == [op |-> "bmp_factory", w |-> w, h |-> h, bc |-> bc,
                      image |-> Encode([w |-> w, h |-> h, bc |-> bc, palette |-> [i \in 1..MaxPalette(bc) |-> <<0,0,0,0>>], rows |-> [r \in 1..Abs(h) |-> Zeros(Pitch(w, bc))]])]
\* the factory overloads taking a (possibly partial) palette and the pixel rows: the object serialises to Encode of that value
Factory2(b) == [op |-> "bmp_factory2", w |-> b.w, h |-> b.h, bc |-> b.bc, palette |-> b.palette, pixels |-> Flatten(b.rows), image |-> ImageWith([b EXCEPT !.palette = FullPalette(b)], 0),
                canon |-> Encode(b)]
TsCase(h, seed) == LET p == TS(h, seed) IN
   [op |-> "tileset", bmp |-> Encode(p), custom |-> EncodeCustom(p), top |-> Encode(TopDown(p))]
TsBad(w, h, bc) == [op |-> "tileset_bad", bmp |-> Encode(B(w, h, bc, MaxPalette(bc), 1))]
Detect(prefix, pos) == [op |-> "ts_detect", bytes |-> [i \in 1..pos |-> 7] \o prefix \o <<1, 2, 3, 4>>, pos |-> pos, expect |-> IsCustom(prefix),
                        isBitmap |-> prefix[1] = 66 /\ prefix[2] = 77]          \* the bitmap detector looks at the two bytes "BM" only
\* ---- seeded random bitmaps: any depth, width 0..70, height -5..5, any palette length, every byte (padding and 4th palette byte too) arbitrary ----
RS(r) == Seed * 307 + r
RDepth(r) == Pick(RS(r), 1, 0, <<1, 4, 8>>)
RBmp(r) == LET bc == RDepth(r)  w == Below(RS(r), 2, 0, 71)  h == Below(RS(r), 3, 0, 11) - 5
               np == IF Below(RS(r), 4, 0, 3) = 0 THEN MaxPalette(bc) ELSE Below(RS(r), 5, 0, MaxPalette(bc) + 1) IN
           [w |-> w, h |-> h, bc |-> bc, palette |-> [i \in 1..np |-> <<Below(RS(r), 6, i, 256), Below(RS(r), 7, i, 256), Below(RS(r), 8, i, 256), Below(RS(r), 9, i, 256)>>],
            rows |-> [y \in 1..Abs(h) |-> [x \in 1..Pitch(w, bc) |-> Below(RS(r), 10 + y, x, 256)]]]
\* the header's used-colour count: 0 may stand for a full palette; a partial palette must be announced
RUsed(r, b) == IF Len(b.palette) = MaxPalette(b.bc) /\ Below(RS(r), 40, 0, 2) = 0 THEN 0 ELSE Len(b.palette)
RTileset(r) == LET h == 32 * Below(RS(r), 50, 0, 4) * (IF Below(RS(r), 51, 0, 2) = 0 THEN 1 ELSE -1)
                  np == IF Below(RS(r), 57, 0, 3) = 0 THEN 1 + Below(RS(r), 58, 0, 255) ELSE 256 IN
  [w |-> 32, h |-> h, bc |-> 8, palette |-> [i \in 1..np |-> <<Below(RS(r), 52, i, 256), Below(RS(r), 53, i, 256), Below(RS(r), 54, i, 256), Below(RS(r), 55, i, 256)>>],
   rows |-> [y \in 1..Abs(h) |-> [x \in 1..32 |-> Below(RS(r), 56 + (y % 7), x + y, 256)]]]
\* ---- one TLC state per case: (family, parameters).  The laws of the bitmap description are INVARIANTs over the state's bitmap value;
\*      Export (always true) prints the state's scenario. ---------------------------------------------------------------------------------
Init == \/ fam = "full" /\ par \in {<<bc, w, h>> : bc \in Depths, w \in 0..MaxWidth, h \in {-2, -1, 0, 1, 3}}
        \/ fam = "partial" /\ par \in {<<bc, w, h, k>> : bc \in Depths, w \in {x \in 0..MaxWidth : x % 7 = 1}, h \in {-2, -1, 0, 1, 3}, k \in {1, 2}}
        \/ fam = "factory2" /\ par \in {<<bc, w, h, k>> : bc \in Depths, w \in {0, 1, 5, 9, 33}, h \in {-2, 0, 1, 3}, k \in {0, 1, 2}}
        \/ fam = "rand" /\ par \in {<<r>> : r \in 1..NRand}
        \/ fam = "ts-rand" /\ par \in {<<r>> : r \in 1..(NRand \div 10)}
        \/ fam = "ts-partial" /\ par \in {<<h, k>> : h \in {32, -64}, k \in {1, 2, 100, 255}}        \* a tileset stored as a standard bitmap that declares k used colours
        \/ fam = "wide" /\ par \in {<<bc, w, h>> : bc \in {1}, w \in {65535, 65536, 65537, 131073}, h \in {1, -2}} \cup {<<8, 65536, 1>>, <<4, 65540, -1>>}
        \* the factories at the edges of what they accept: <<bc, width high half, width low half, h, palette length, pixel count delta or -99 (no pixel argument)>>
        \/ fam = "factory-edge" /\ par \in ({<<bc, 0, 4, 2, 0, -99>> : bc \in {0, 2, 3, 5, 7, 9, 16, 24, 32}}                      \* depths
                                          \cup UNION {{<<bc, 0, 4, 2, np, -99>> : np \in {MaxPalette(bc), MaxPalette(bc) + 1}} : bc \in Depths} \* palette length
                                          \cup {<<bc, hi, lo, h, 0, -99>> : bc \in {1, 8}, hi \in {32767, 32768, 65535}, lo \in {0, 65532, 65535}, h \in {0}}   \* widths around 2^31, no rows
                                          \cup {<<8, 32768, 0, 1, 0, -99>>, <<1, 65535, 65504, -1, 0, -99>>}
                                          \cup {<<bc, 0, 5, h, 1, d>> : bc \in Depths, h \in {-2, 3}, d \in {-1, 0, 1}})                 \* pixel argument of the wrong length
        \/ fam = "ts" /\ par \in {<<h, seed>> : h \in {0, 32, -32, 64}, seed \in {0, 5}}
        \/ fam = "tsbad" /\ par = <<>>
        \/ fam = "det" /\ par \in {<<b1, b2, b3, b4, pos>> : b1 \in {80, 81}, b2 \in {66, 67}, b3 \in {77, 78}, b4 \in {80, 81}, pos \in {0, 3}} \cup {<<66, 77, 1, 2, 0>>, <<66, 77, 80, 80, 3>>, <<66, 78, 1, 2, 0>>, <<67, 77, 1, 2, 3>>, <<77, 66, 0, 0, 0>>, <<98, 109, 0, 0, 0>>}
Next == UNCHANGED vars
Spec == Init /\ [][Next]_vars
PartialCount(bc, k) == IF k = 1 THEN 1 ELSE MaxPalette(bc) - 1
Factory2Count(bc, k) == IF k = 0 THEN 0 ELSE IF k = 1 THEN 1 ELSE MaxPalette(bc)
\* the bitmap value of the state (families without one use an empty 8-bit bitmap)
Value == CASE fam = "full" -> B(par[2], par[3], par[1], MaxPalette(par[1]), par[2] + par[1])
           [] fam = "partial" -> B(par[2], par[3], par[1], PartialCount(par[1], par[4]), par[2])
           [] fam = "factory2" -> B(par[2], par[3], par[1], Factory2Count(par[1], par[4]), par[2] + Factory2Count(par[1], par[4]))
           [] fam = "rand" -> RBmp(par[1])
           [] fam = "ts-rand" -> RTileset(par[1])
           [] fam = "ts" -> TS(par[1], par[2])
           [] fam = "ts-partial" -> [TS(par[1], 3) EXCEPT !.palette = SubSeq(@, 1, par[2])]
           [] fam = "wide" -> [w |-> par[2], h |-> par[3], bc |-> par[1], palette |-> Pal(MaxPalette(par[1]), 3), rows |-> [r \in 1..Abs(par[3]) |-> [i \in 1..Pitch(par[2], par[1]) |-> IF i <= RowBytes(par[2], par[1]) - 1 THEN (i * 7 + r) % 256 ELSE 0]]]
           [] OTHER -> B(0, 0, 8, 256, 0)
\* model-level laws
ValueIsValid == Valid(Value)
FlipTwiceIsIdentity == Flip(Flip(Value)) = Value
FlipReversesRows == LET f == Flip(Value) IN f.h = -Value.h /\ \A i \in 1..Len(f.rows) : f.rows[i] = Value.rows[Len(f.rows) + 1 - i]
\* what the writer emits is again a valid image of the same geometry with zero padding and a full palette
CanonIsCanonical == LET c == Canon(Value) IN Valid(c) /\ Canon(c) = c /\ Len(c.palette) = MaxPalette(c.bc) /\ c.w = Value.w /\ c.h = Value.h
EncodedLength == Len(Encode(Value)) = 54 + 4 * MaxPalette(Value.bc) + Pitch(Value.w, Value.bc) * Abs(Value.h)
TilesetLaws == fam \in {"ts", "ts-rand", "ts-partial"} => IsTileset(Value) /\ Len(EncodeCustom(Value)) = 1096 + 32 * Abs(Value.h) /\ TopDown(Value).h <= 0
\* a factory call is accepted iff the depth is an indexed one, the palette fits it, the width fits the header's signed field and the pixel argument
\* (if any) has exactly pitch x |height| bytes; an accepted call yields a valid bitmap that serialises to the canonical encoding
EdgeAccepts(p) == /\ p[1] \in Depths /\ p[5] <= MaxPalette(p[1]) /\ p[2] < 32768 /\ (p[6] = -99 \/ p[6] = 0)
EdgeCase(p) == LET w == p[2] * 65536 + p[3]  ok == EdgeAccepts(p)  small == p[1] \in Depths /\ p[2] = 0 IN
  [op |-> "bmp_factory_edge", bc |-> p[1], whi |-> p[2], wlo |-> p[3], h |-> p[4], npal |-> p[5], delta |-> p[6], expect |-> IF ok THEN "ok" ELSE "refuse",
   rows |-> Abs(p[4]), pitch |-> IF small THEN Pitch(w, p[1]) ELSE 0,
   emptyLen |-> IF ok THEN 54 + 4 * MaxPalette(p[1]) ELSE 0]                 \* length of the file when there are no rows (the wide accepted cases have none)
Export ==
  CASE fam = "factory-edge" -> Emit(<<"factory-edge", par>>, << EdgeCase(par) >>)
    [] fam = "full" -> Emit(<<"full", par>>, << BmpRT(Value, 0), Factory(par[2], par[3], par[1]) >>)
    [] fam = "partial" -> Emit(<<"partial", par>>, << BmpRT(Value, Len(Value.palette)) >>)
    [] fam = "factory2" -> Emit(<<"factory2", par>>, << Factory2(Value) >>)
    [] fam = "rand" -> (Len(Value.palette) > 0 => Emit(<<"rand", Seed, par>>, << BmpRT(Value, RUsed(par[1], Value)), Factory2(Value) >>))
    [] fam = "ts-rand" -> Emit(<<"ts-rand", Seed, par>>, << [op |-> "tileset", bmp |-> ImageWith(Value, IF Len(Value.palette) = 256 THEN 0 ELSE Len(Value.palette)), custom |-> EncodeCustom(Value), top |-> Encode(TopDown(Value))] >>)
    [] fam = "ts" -> Emit(<<"ts", par>>, << TsCase(par[1], par[2]) >>)
    [] fam = "ts-partial" -> Emit(<<"ts-partial", par>>, << [op |-> "tileset", bmp |-> ImageWith(Value, Len(Value.palette)), custom |-> EncodeCustom(Value), top |-> Encode(TopDown(Value))] >>)
    [] fam = "wide" -> Emit(<<"wide", par>>, << Factory(par[2], par[3], par[1]), Factory2(Value) >>)
    [] fam = "tsbad" -> Emit(<<"tsbad">>, << TsBad(32, 32, 4), TsBad(31, 32, 8), TsBad(33, 32, 8), TsBad(32, 33, 8), TsBad(32, -31, 8) >>
                                     \o [i \in 1..8 |-> [op |-> "tileset_bad", custom |-> EncodeCustomDepth(TS(32, 3), <<0, 1, 4, 7, 9, 16, 24, 32>>[i])]])      \* custom files that declare another bit depth
    [] OTHER -> Emit(<<"det", par>>, << Detect(<<par[1], par[2], par[3], par[4]>>, par[5]) >>)
====
