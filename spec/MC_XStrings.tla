---- MODULE MC_XStrings ----
(* Beyond the listed properties: the list helpers of StringUtility, one TLC state per (list, removal list, needle). *)
EXTENDS Names, TLC, Json, FiniteSets
VARIABLES lst, rm, needle
vars == <<lst, rm, needle>>
Pool == << <<97>>, <<65>>, <<97,98>>, <<>>, <<66,46,116>>, <<98,46,84>>, <<195,169>>, <<97,200>> >>        \* "a" "A" "ab" "" "B.t" "b.T" "é"(UTF-8) "a\xC8"
Upper(s) == [i \in 1..Len(s) |-> IF s[i] >= 97 /\ s[i] <= 122 THEN s[i] - 32 ELSE s[i]]
Lists == {<<>>} \cup {<<i>> : i \in 1..Len(Pool)} \cup {<<i, j>> : i, j \in 1..Len(Pool)} \cup {<<1, 3, 2>>, <<5, 6, 5>>, <<2, 2, 1, 4>>}
Init == lst \in Lists /\ rm \in {<<>>, <<1>>, <<2, 6>>, <<4>>, <<3, 3>>} /\ needle \in 1..Len(Pool)
Next == UNCHANGED vars
Spec == Init /\ [][Next]_vars
Str(ix) == [i \in 1..Len(ix) |-> Pool[ix[i]]]
\* a string is removed iff it equals one of the removal strings ignoring case; order and multiplicity of the others are kept
RemoveStrings(l, r) == SelectSeq(l, LAMBDA s : ~\E k \in 1..Len(r) : CIEqual(s, r[k]))
ContainsCI(l, s) == \E k \in 1..Len(l) : CIEqual(l[k], s)
NonAscii(s) == \E i \in 1..Len(s) : s[i] >= 128
RemovalIsIdempotent == RemoveStrings(RemoveStrings(Str(lst), Str(rm)), Str(rm)) = RemoveStrings(Str(lst), Str(rm))
RemovedAreGone == \A k \in 1..Len(rm) : ~ContainsCI(RemoveStrings(Str(lst), Str(rm)), Pool[rm[k]])
Export == PrintT("S|" \o ToJson([id |-> <<lst, rm, needle>>, steps |-> << [op |-> "xstrings", list |-> Str(lst), removal |-> Str(rm), needle |-> Pool[needle],
            removed |-> RemoveStrings(Str(lst), Str(rm)), contains |-> ContainsCI(Str(lst), Pool[needle]),
            upper |-> Upper(Pool[needle]), nonAscii |-> NonAscii(Pool[needle])] >>]))
====
