---- MODULE Trace_Huffman ----
(* Pipeline V for C15: a history recorded from the real AdaptiveHuffmanTree (314 symbols, 16-bit counters)  *)
(* is replayed against Huffman!Update.  Events:                                                             *)
(*   {"e":"Init"}                                 a fresh tree                                               *)
(*   {"e":"Upd","x":s,"ok":b,"path":[bits],"enc":[bits]}   UpdateCodeCount(s); ok = no exception; path = root-to-leaf  *)
(*                                                branch bits of s in the real tree after the call; enc = the bit *)
(*                                                string the real encoder reports for s, in decoding order        *)
(*   {"e":"Table","paths":[[bits],...]}           the paths of all symbols (logged every few hundred steps)   *)
EXTENDS Huffman, TLC, Json, IOUtils
Log == ndJsonDeserialize(IOEnv.TRACE)
VARIABLES l, tree
vars == <<l, tree>>
Ev == Log[l]
Init == l = 1 /\ tree = InitTree
EvInit == Ev.e \in {"Init", "Reset"} /\ tree' = InitTree
EvUpd == /\ Ev.e = "Upd"
         /\ IF CanUpdate(tree, Ev.x)
            THEN Ev.ok = TRUE /\ tree' = Update(tree, Ev.x) /\ Ev.path = EncodePath(tree', Ev.x) /\ Ev.enc = Ev.path
            ELSE Ev.ok = FALSE /\ tree' = tree /\ (Ev.x \in Syms => Ev.path = EncodePath(tree, Ev.x) /\ Ev.enc = Ev.path)
EvTable == /\ Ev.e = "Table" /\ tree' = tree
           /\ \A s \in Syms : Ev.paths[s + 1] = EncodePath(tree, s) /\ Ev.enc[s + 1] = Ev.paths[s + 1]
Next == l <= Len(Log) /\ l' = l + 1 /\ (EvInit \/ EvUpd \/ EvTable)
Spec == Init /\ [][Next]_vars
NotAccepted == l <= Len(Log)
\* acceptance without a counterexample print-out: the deepest state consumed every line
Accepted == TLCGet("stats").diameter - 1 = Len(Log)
\* the tree invariants are also evaluated along the recorded history (cheap ones at every step)
StepInv == SiblingOrder(tree) /\ tree.wt[Root] <= MaxCount
====
