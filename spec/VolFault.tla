------------------------------- MODULE VolFault -------------------------------
(***************************************************************************************************)
(* Fault model for C05 on VOL archives: every truncation and every integer field of a valid image  *)
(* replaced by boundary values (section lengths also with the padding flag set), plus coordinated   *)
(* pairs.  Base images carry literal payloads so that faults can address any byte.                  *)
(***************************************************************************************************)
EXTENDS Vol, Scen
\* flatten literal/zero segments to bytes (base images here contain no blobs)
RECURSIVE FlatSegs(_)
FlatSegs(segs) == IF segs = <<>> THEN <<>>
                  ELSE LET s == Head(segs) IN (IF s.k = "b" THEN s.v ELSE Zeros(s.n)) \o FlatSegs(Tail(segs))
SetBytes(img, off, bs) == [i \in 1..Len(img) |-> IF i > off /\ i <= off + Len(bs) THEN bs[i - off] ELSE img[i]]
Trunc(img, k) == SubSeq(img, 1, k)
\* boundary values as little-endian byte quadruples
Small32(v) == LE32(v)
Flagged(v) == LE32Top(v)
Boundary(old, flen) ==
  { Small32(0), Small32(1), Small32(13), Small32(14), Small32(15), Small32(28), Small32(flen), Small32(flen + 1),
    <<255,255,255,127>>, <<0,0,0,128>>, <<255,255,255,255>>, <<240,255,255,255>> }
  \cup (IF old > 0 THEN { Small32(old - 1) } ELSE {}) \cup { Small32(old + 1) }
SectionBoundary(old, flen) ==
  { Flagged(0), Flagged(1), Flagged(13), Flagged(14), Flagged(15), Flagged(27), Flagged(28), Flagged(29), Flagged(flen), Flagged(old + 1), Flagged(old + 14),
    <<255,255,255,255>>, Small32(old) } \cup (IF old > 0 THEN { Flagged(old - 1) } ELSE {})
\* integer fields of a layout: <<name, offset, old value, is-section-length>>
Fields(ms) ==
  LET voliHdr == 24 + PaddedNames(ms) IN
  { <<"VOL.len", 4, HeaderLen(ms), TRUE>>, <<"volh.len", 12, 0, TRUE>>, <<"vols.len", 20, PaddedNames(ms), TRUE>>,
    <<"names.actual", 24, NameTableLen(ms), FALSE>>, <<"voli.len", voliHdr + 4, IndexLen(ms), TRUE>> }
  \cup UNION { { <<"entry.name", voliHdr + 8 + 14 * (i - 1), NameOff(ms, i), FALSE>>,
                 <<"entry.block", voliHdr + 8 + 14 * (i - 1) + 4, BlockOff(ms, i), FALSE>>,
                 <<"entry.size", voliHdr + 8 + 14 * (i - 1) + 8, ms[i].size, FALSE>>,
                 <<"block.len", BlockOff(ms, i) + 4, ms[i].size, TRUE>> } : i \in 1..Len(ms) }
===============================================================================
