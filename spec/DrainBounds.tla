---- MODULE DrainBounds ----
(***************************************************************************************************)
(* The counters of LzhDrain.tla (bytes decoded L, bytes delivered D, end of input, control state)    *)
(* without the ring contents, for ANY ring size W, ANY longest run M, ANY fill threshold with          *)
(* MaxFill + M <= W and ANY call sizes.  Apalache discharges the inductive invariant IndInv (which     *)
(* implies NoOverrun) for these unbounded parameters; TLC checks on the scaled instances of LzhDrain    *)
(* that LzhDrain's behaviours are behaviours of this machine (PROPERTY RefinesBounds) and that the       *)
(* masked fill level the code computes equals L - D, which is what this abstraction replaces it by.      *)
(***************************************************************************************************)
EXTENDS Integers
CONSTANTS
  \* @type: Int;
  W,
  \* @type: Int;
  M,
  \* @type: Int;
  MaxFill
VARIABLES
  \* @type: Int;
  L,
  \* @type: Int;
  D,
  \* @type: Bool;
  eos,
  \* @type: Str;
  pc,
  \* @type: Int;
  need
\* @type: <<Int, Int, Bool, Str, Int>>;
vars == <<L, D, eos, pc, need>>
ConstInit == W \in Nat /\ M \in Nat /\ MaxFill \in Nat /\ M >= 1 /\ MaxFill >= 1 /\ MaxFill + M <= W
\* negative control: one more than the largest safe threshold; IndInv then no longer implies NoOverrun (Apalache must find the counterexample)
ConstInitUnsafe == W \in Nat /\ M \in Nat /\ MaxFill \in Nat /\ M >= 1 /\ MaxFill >= 1 /\ MaxFill + M = W + 1
Waiting == L - D
Init == L = 0 /\ D = 0 /\ eos = FALSE /\ pc = "idle" /\ need = 0
\* the fill loop: one code (a run of 1..M bytes, possibly the last one) per step while fewer than MaxFill bytes are waiting
FillStep(next) ==
  IF eos \/ Waiting >= MaxFill THEN pc' = next /\ UNCHANGED <<L, D, eos, need>>
  ELSE \E len \in 1..M : \E last \in BOOLEAN : L' = L + len /\ eos' = last /\ UNCHANGED <<D, pc, need>>
CallGetData == pc = "idle" /\ pc' = "gd_fill" /\ need' \in Nat /\ UNCHANGED <<L, D, eos>>
GdFill == pc = "gd_fill" /\ FillStep("gd_copy")
GdCopy == /\ pc = "gd_copy"
          /\ LET c == IF need < Waiting THEN need ELSE Waiting IN
             /\ D' = D + c /\ need' = need - c
             /\ pc' = IF need - c > 0 /\ ~eos THEN "gd_fill" ELSE "gd_ret"
          /\ UNCHANGED <<L, eos>>
GdReturn == pc = "gd_ret" /\ pc' = "idle" /\ UNCHANGED <<L, D, eos, need>>
CallIBuf == pc = "idle" /\ pc' = "ib_fill" /\ UNCHANGED <<L, D, eos, need>>
IbFill == pc = "ib_fill" /\ FillStep("ib_take")
\* the contiguous part of the queue: some of the waiting bytes, at least one if any are waiting
IbTake == /\ pc = "ib_take" /\ \E c \in 0..W : c <= Waiting /\ (Waiting > 0 => c > 0) /\ D' = D + c
          /\ pc' = "ib_ret" /\ UNCHANGED <<L, eos, need>>
IbReturn == pc = "ib_ret" /\ pc' = "idle" /\ UNCHANGED <<L, D, eos, need>>
Next == CallGetData \/ GdFill \/ GdCopy \/ GdReturn \/ CallIBuf \/ IbFill \/ IbTake \/ IbReturn
Spec == Init /\ [][Next]_vars
PcSet == {"idle", "gd_fill", "gd_copy", "gd_ret", "ib_fill", "ib_take", "ib_ret"}
IndInv == /\ L \in Nat /\ D \in Nat /\ need \in Nat /\ eos \in BOOLEAN /\ pc \in PcSet
          /\ D <= L /\ Waiting <= MaxFill + M - 1
NoOverrun == Waiting <= W - 1
====
