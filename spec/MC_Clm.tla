---- MODULE MC_Clm ----
(* Bounded instance for C03: sets of WAV sources with extra chunks before fmt, between, and after data. *)
EXTENDS Clm, Scen
CONSTANTS MaxFiles
VARIABLES done
F1 == DefaultFmt
F2 == [DefaultFmt EXCEPT !.rate = 11025]
\* base names: "t1" "T2" "trk_0008" (8 chars) "ninechars" (9) "t1" in upper case "T1"
Names == << <<116,49>>, <<84,50>>, <<116,114,107,95,48,48,48,56>>, <<110,105,110,101,99,104,97,114,115>>, <<84,49>> >>
Ext == <<46,119,97,118>>
DataLens == {0, 1, 6, 7}
\* chunk layouts: <<pre, mid, post>>
Layouts == << << <<>>, <<>>, <<>> >>, << <<2>>, <<>>, <<>> >>, << <<>>, <<4>>, <<>> >>, << <<>>, <<>>, <<2>> >>, << <<2>>, <<0>>, <<4, 2>> >> >>
Wav(ni, dl, li, fl, f, id) == [name |-> Names[ni], fmt |-> f, fmtLen |-> fl, dataBlob |-> id, dataLen |-> dl,
                              pre |-> Layouts[li][1], mid |-> Layouts[li][2], post |-> Layouts[li][3]]
Seqs(S, n) == [1..n -> S]
OutName == <<111,46,99,108,109>>
Scenario(ws) ==
  LET n == Len(ws)
      paths == [i \in 1..n |-> <<119,47>> \o ws[i].name \o Ext]
      puts == [i \in 1..n |-> Put(paths[i], WavImage(ws[i]))]
      s == SortCI(ws)
      listing == [i \in 1..Len(s) |-> [name |-> s[i].name, size |-> s[i].dataLen]]
      per == Flatten([i \in 1..Len(s) |-> << VolIndex(s[i].name, i - 1), VolStream(i - 1, << Blob(s[i].dataBlob, 0, s[i].dataLen) >>),
                                              VolExtract(i - 1, <<120,47>> \o s[i].name \o Ext, CanonicalWav(s[1].fmt, s[i].dataBlob, s[i].dataLen)) >>])
  IN puts \o (IF Refused(ws) THEN << ClmCreate(OutName, paths, "refuse") >>
              ELSE << ClmCreate(OutName, paths, "ok"), FileEq(OutName, ClmLayout(s)), ClmOpen(OutName, listing) >> \o per
                   \o << VolMemberErr(Len(s)) >>)
Distinct(ixs) == \A i, j \in DOMAIN ixs : i # j => ixs[i] # ixs[j]
Init == done = FALSE
Next == /\ ~done /\ done' = TRUE
        /\ \A n \in 0..MaxFiles : \A nis \in Seqs(1..Len(Names), n) : Distinct(nis) =>
             \A dls \in Seqs(DataLens, n) : \A li \in 1..Len(Layouts) :
               \* layout index rotates per member; fmt length alternates; format differs on the last member in one variant
               \A variant \in {1, 2} :
               LET ws == [i \in 1..n |-> Wav(nis[i], dls[i], ((li + i) % Len(Layouts)) + 1, IF (i + li) % 2 = 0 THEN 16 ELSE 18,
                                              IF variant = 2 /\ i = n /\ n > 1 THEN F2 ELSE F1, i)]
               IN /\ (~Refused(ws) => Assert(EndsWithLastData(SortCI(ws)), "ends with last data"))
                  /\ PrintT("S|" \o ToJson([id |-> <<nis, dls, li, variant>>, steps |-> Scenario(ws)]))
Spec == Init /\ [][Next]_done
====
