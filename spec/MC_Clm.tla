---- MODULE MC_Clm ----
(* Bounded instance for C03: sets of WAV sources with extra chunks before fmt, between, and after data. *)
EXTENDS Clm, Scen, Rand
CONSTANTS MaxFiles, Seed, NRand
VARIABLES kind, par
vars == <<kind, par>>
F1 == DefaultFmt
F2 == [DefaultFmt EXCEPT !.rate = 11025]
\* one format per field of the format record, differing from F1 in THAT field only (variants 3..7; 12-bit samples in 2-byte blocks are legal PCM)
FVar(v) == IF v = 2 THEN F2 ELSE IF v = 3 THEN [DefaultFmt EXCEPT !.tag = 2] ELSE IF v = 4 THEN [DefaultFmt EXCEPT !.ch = 2]
           ELSE IF v = 5 THEN [DefaultFmt EXCEPT !.abps = 44101] ELSE IF v = 6 THEN [DefaultFmt EXCEPT !.align = 4] ELSE [DefaultFmt EXCEPT !.bits = 12]
\* base names: "t1" "T2" "trk_0008" (8 chars) "ninechars" (9) "t1" in upper case "T1"
\* ... and names with dots (the stored name is the file name without its LAST extension; a leading dot starts no extension):
\*     "abcde.gh" (8: fits) "abcde.ghi" (9) ".bcdefghi" (9) "abcdefgh." (9, the file is "abcdefgh..wav")
Names == << <<116,49>>, <<84,50>>, <<116,114,107,95,48,48,48,56>>, <<110,105,110,101,99,104,97,114,115>>, <<84,49>>,
            <<97,98,99,100,101,46,103,104>>, <<97,98,99,100,101,46,103,104,105>>, <<46,98,99,100,101,102,103,104,105>>, <<97,98,99,100,101,102,103,104,46>> >>
NPlain == 5          \* the dotted names are used in sets of one member (see the note at ClmAlphabet)
Ext == <<46,119,97,118>>
DataLens == {0, 1, 6, 7}
\* chunk layouts: <<pre, mid, post>>
Layouts == << << <<>>, <<>>, <<>> >>, << <<2>>, <<>>, <<>> >>, << <<>>, <<4>>, <<>> >>, << <<>>, <<>>, <<2>> >>, << <<2>>, <<0>>, <<4, 2>> >> >>
Wav(ni, dl, li, fl, f, id) == [name |-> Names[ni], fmt |-> f, fmtLen |-> fl, dataBlob |-> id, dataLen |-> dl,
                              pre |-> Layouts[li][1], mid |-> Layouts[li][2], post |-> Layouts[li][3]]
Seqs(S, n) == [1..n -> S]
RECURSIVE SumLens(_, _)
SumLens(ws, k) == IF k = 0 THEN 0 ELSE ws[k].dataLen + SumLens(ws, k - 1)
OutName == <<111,46,99,108,109>>
Scenario(ws) ==
  LET n == Len(ws)
      \* every input in a directory spelled its own way: "w/" "./w/" "w//" and another directory "v/" (the archive depends on the file names only)
      DirSpell == << <<119,47>>, <<46,47,119,47>>, <<119,47,47>>, <<118,47>> >>
      paths == [i \in 1..n |-> DirSpell[((i + ws[i].dataLen + Len(ws[i].name)) % 4) + 1] \o ws[i].name \o Ext]
      puts == [i \in 1..n |-> Put(paths[i], WavImage(ws[i]))]
      s == SortCI(ws)
      listing == [i \in 1..Len(s) |-> [name |-> s[i].name, size |-> s[i].dataLen]]
      per == Flatten([i \in 1..Len(s) |-> << VolIndex(s[i].name, i - 1), VolStream(i - 1, << Blob(s[i].dataBlob, 0, s[i].dataLen) >>),
                                              VolExtract(i - 1, <<120,47>> \o s[i].name \o Ext, CanonicalWav(s[1].fmt, s[i].dataBlob, s[i].dataLen)) >>])
  IN puts \o (IF Refused(ws) THEN << ClmCreate(OutName, paths, "refuse") >>
              ELSE << ClmCreate(OutName, paths, "ok"), FileEq(OutName, ClmLayout(s)), ClmOpen(OutName, listing) >> \o per
                   \o << VolMemberErr(Len(s)) >>)
\* ---- inputs that are not WAV files: a good file next to one that lacks one thing a WAV file must have -------------------------------
FmtChunk == TagFmt \o LE32(16) \o Fmt16(F1)
DataChunk == TagData \o LE32(4) \o <<1, 2, 3, 4>>
Riff(tag1, tag2, delta, body) == tag1 \o LE32(4 + Len(body) + delta) \o tag2 \o body
NotWav == << Riff(<<82,73,70,88>>, TagWAVE, 0, FmtChunk \o DataChunk),          \* "RIFX"
             Riff(TagRIFF, <<87,65,86,88>>, 0, FmtChunk \o DataChunk),          \* "WAVX"
             Riff(TagRIFF, TagWAVE, 1, FmtChunk \o DataChunk),                  \* the RIFF size is not the file length - 8
             Riff(TagRIFF, TagWAVE, 0, DataChunk),                               \* no format chunk
             Riff(TagRIFF, TagWAVE, 0, FmtChunk),                                \* no data chunk
             <<>>,                                                               \* an empty file
             <<104, 101, 108, 108, 111, 32, 119, 111, 114, 108, 100>>,           \* text
             Riff(TagRIFF, TagWAVE, 0, FmtChunk \o DataChunk) >>                 \* (control: this one IS a WAV file)
NotWavScenario(v, first) ==
  LET good == <<119,47,116,49>> \o Ext   bad == <<119,47,84,50>> \o Ext              \* w/t1.wav, w/T2.wav
      w == Wav(1, 6, 1, 16, F1, 1)
      isWav == v = Len(NotWav)
  IN << Put(good, WavImage(w)), Put(bad, << Lit(NotWav[v]) >>),
        ClmCreate(OutName, IF first THEN <<bad, good>> ELSE <<good, bad>>, IF isWav THEN "ok" ELSE "refuse") >>
Distinct(ixs) == \A i, j \in DOMAIN ixs : i # j => ixs[i] # ixs[j]
\* ---- one TLC state per WAV set: (name indices, data lengths, layout rotation, format variant), or a seeded random set ------------
\* layout index rotates per member; fmt length alternates; format differs on the last member in variant 2
WavSet(nis, dls, li, variant) ==
  LET n == Len(nis) IN
  [i \in 1..n |-> Wav(nis[i], dls[i], ((li + i) % Len(Layouts)) + 1, IF (i + li) % 2 = 0 THEN 16 ELSE 18,
                       IF variant >= 2 /\ i = n /\ n > 1 THEN FVar(variant) ELSE F1, i)]
\* random sets: names of 1..9 characters over letters of both cases, digits and '_', data lengths 0..40, 0..2 extra chunks in each position
\* (the property quantifies over letters, digits and underscores; the code orders members by the file name INCLUDING ".wav", which is the order
\*  of the stored names only as long as no character below '.' and no inner dot occurs - so dots stay out of the multi-member families)
ClmAlphabet == << 97, 98, 122, 65, 66, 90, 48, 57, 95, 101, 69 >>
RName(r, i) == Draw(Seed * 211 + r, 10 + i, 1 + Below(Seed * 211 + r, 3, i, 9), ClmAlphabet)
RExtras(r, i, k) == [j \in 1..Below(Seed * 211 + r, 20 + k, i, 3) |-> 2 * Below(Seed * 211 + r, 30 + k, i * 4 + j, 5)]
RWav(r, i) == [name |-> RName(r, i), fmt |-> IF Below(Seed * 211 + r, 5, i, 12) = 0 THEN F2 ELSE F1, fmtLen |-> IF Below(Seed * 211 + r, 6, i, 2) = 0 THEN 16 ELSE 18,
               dataBlob |-> i, dataLen |-> IF Below(Seed * 211 + r, 7, i, 5) = 0 THEN 0 ELSE Below(Seed * 211 + r, 8, i, 41),
               pre |-> RExtras(r, i, 1), mid |-> RExtras(r, i, 2), post |-> RExtras(r, i, 3)]
RandSet(r) == [i \in 1..Below(Seed * 211 + r, 1, 0, 6) |-> RWav(r, i)]
Init == \/ /\ kind = "rand" /\ par \in {<<r>> : r \in 1..NRand}
        \/ /\ kind = "notwav" /\ par \in {<<v, f>> : v \in 1..Len(NotWav), f \in BOOLEAN}
        \/ /\ kind = "set"
           /\ \E n \in 0..MaxFiles : \E nis \in Seqs(1..Len(Names), n) : \E dls \in Seqs(DataLens, n) : \E li \in 1..Len(Layouts) : \E variant \in 1..7 :
                /\ Distinct(nis) /\ (n > 1 => \A i \in 1..n : nis[i] <= NPlain) /\ par = <<nis, dls, li, variant>>
                /\ (variant > 2 => n = 2 /\ li = 1 /\ nis \in {<<1, 2>>, <<2, 1>>} /\ dls[1] = dls[2])        \* the single-field differences: on two members, either order
Next == UNCHANGED vars
Spec == Init /\ [][Next]_vars
Set == IF kind = "rand" THEN RandSet(par[1]) ELSE IF kind = "notwav" THEN <<>> ELSE WavSet(par[1], par[2], par[3], par[4])
\* model-level laws of the layout: the file ends with the last member's data; offsets accumulate from the end of the index
EndsWithLast == ~Refused(Set) => EndsWithLastData(SortCI(Set))
OffsetsAccumulate == ~Refused(Set) => LET s == SortCI(Set) IN \A i \in 1..Len(s) : DataOff(s, i) = 60 + 16 * Len(s) + SumLens(s, i - 1)
NamesAscending == ~Refused(Set) => LET s == SortCI(Set) IN \A i \in 1..(Len(s) - 1) : Less(s[i].name, s[i + 1].name)
Export == PrintT("S|" \o ToJson([id |-> <<kind, par>>, steps |-> IF kind = "notwav" THEN NotWavScenario(par[1], par[2]) ELSE Scenario(Set)]))
====
