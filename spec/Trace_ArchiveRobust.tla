---------------------------- MODULE Trace_ArchiveRobust ----------------------------
(***************************************************************************************************)
(* Pipeline V for C05: the loose contract of the VOL and CLM readers on arbitrary bytes.            *)
(* For an arbitrary image                                                                           *)
(*   - every call either succeeds or is refused with an ordinary error (anything else - sanitizer    *)
(*     report, signal, watchdog - is reported by the harness as a crash of that call);               *)
(*   - responses are a function of the image: the same call gives the same answer on the long-lived   *)
(*     object, on a fresh object, before and after other (failed) calls - "every later call behaves   *)
(*     as if the failed one had not been made";                                                       *)
(*   - indices at or beyond the reported count are refused by every per-member call;                  *)
(*   - a member stream that is delivered consists of exactly the image bytes at the extent the image   *)
(*     records for that member, and if that extent does not lie inside the image the call is refused   *)
(*     rather than delivered short.                                                                    *)
(* The extent is recomputed here from the (corrupted) image itself.  Where a VOL image records two     *)
(* lengths that a fault has made different (index entry size, block header length) either is           *)
(* "the extent the archive records" - for a member stored uncompressed.  The index entry of a          *)
(* compressed member holds its unpacked size, so only the block header describes its stored bytes.     *)
(* Events: {"e":"Reset","kind":"vol"|"clm","image":[..]}                                               *)
(*         {"e":"Call","obj":"long"|"fresh","call":..,"i":..,"key":..,"ok":bool,"val":..}              *)
(***************************************************************************************************)
EXTENDS Naturals, Sequences, FiniteSets, TLC, Json, IOUtils
Log == ndJsonDeserialize(IOEnv.TRACE)
VARIABLES l, kind, image, resp, count
vars == <<l, kind, image, resp, count>>
Ev == Log[l]
Init == l = 1 /\ kind = "none" /\ image = <<>> /\ resp = <<>> /\ count = 0
FLen == Len(image)
\* a 32-bit little-endian word at 0-based offset o as [hi, lo, in]: two 16-bit halves (TLC integers are 32-bit signed)
W32(o) == IF o + 4 > FLen THEN [hi |-> 0, lo |-> 0, in |-> FALSE]
          ELSE [hi |-> image[o + 3] + 256 * image[o + 4], lo |-> image[o + 1] + 256 * image[o + 2], in |-> TRUE]
\* candidate extents of member i: a set of [off, len] with small (16-bit) values, or "outside" when a value is beyond any
\* image this model handles (all images are shorter than 65536 bytes)
Outside == [off |-> 70000, len |-> 0]
SmallExtent(offW, lenHi, lenLo, delta) == IF offW.hi # 0 \/ lenHi # 0 THEN Outside ELSE [off |-> offW.lo + delta, len |-> lenLo]
\* ---- VOL: index located through the padded name-table length; block = 8-byte header + payload --------------------
VolIndexAt == LET vs == W32(20) IN IF vs.in /\ (vs.hi % 32768) = 0 THEN 24 + vs.lo + 8 ELSE 0     \* 0: cannot be located
\* the extracted file is the stored block itself: a VOL member with compression code 0x100 in its index entry (a CLM member is extracted
\* as a WAV file around its data, an LZH member decompressed: for those only the refusal rule applies here)
StoredPlain(i) == kind = "vol" /\ (VolIndexAt # 0 /\ LET o == VolIndexAt + 14 * i + 12 IN o + 2 <= FLen /\ image[o + 1] = 0 /\ image[o + 2] = 1)
VolExtents(i) ==
  IF VolIndexAt = 0 THEN {}
  ELSE LET blk == W32(VolIndexAt + 14 * i + 4)  esz == W32(VolIndexAt + 14 * i + 8) IN
       IF ~blk.in \/ blk.hi # 0 THEN {Outside}
       ELSE LET hdr == W32(blk.lo + 4) IN
            (IF hdr.in THEN { SmallExtent(blk, hdr.hi % 32768, hdr.lo, 8) } ELSE {Outside})
            \cup (IF esz.in /\ StoredPlain(i) THEN { SmallExtent(blk, esz.hi, esz.lo, 8) } ELSE {})      \* (a compressed member's index entry holds the UNPACKED size: not an extent)
\* ---- CLM: 60-byte header, 16-byte entries (8 name bytes, offset, length) --------------------------------------------------
ClmExtents(i) == LET off == W32(60 + 16 * i + 8)  len == W32(60 + 16 * i + 12) IN
                 IF ~off.in \/ ~len.in THEN {} ELSE { SmallExtent(off, len.hi, len.lo, 0) }
Extents(i) == IF kind = "vol" THEN VolExtents(i) ELSE ClmExtents(i)
InFile(x) == x.off + x.len <= FLen
Slice(x) == SubSeq(image, x.off + 1, x.off + x.len)
Reset == Ev.e = "Reset" /\ kind' = Ev.kind /\ image' = Ev.image /\ resp' = <<>> /\ count' = 0
Allowed ==
  CASE Ev.call = "GetCount" -> TRUE
    [] Ev.call \in {"GetName", "GetSize"} -> (Ev.i >= count => ~Ev.ok)
    [] Ev.call = "SeekBeyond" -> (Ev.i >= count => ~Ev.ok) /\ (Ev.ok => Ev.val = 0)     \* val: how many out-of-range seeks a member stream accepted (absolute next to 2^64; relative, from a position inside the member)
    [] Ev.call = "Extract" ->                                                    \* extraction to disk: the same extent rule, whatever the compression kind
         /\ (Ev.i >= count => ~Ev.ok)
         /\ LET xs == Extents(Ev.i) IN
            /\ (xs # {} /\ Ev.i < count /\ \A x \in xs : ~InFile(x)) => ~Ev.ok     \* "refused rather than delivered short" (also for compressed members)
            /\ (xs # {} /\ Ev.i < count /\ Ev.ok /\ StoredPlain(Ev.i)) => \E x \in xs : InFile(x) /\ Ev.val = Slice(x)
    [] Ev.call \in {"OpenStream", "OpenStreamAfterFailedRead"} ->         \* (the second form: a read of one byte too many is refused first; logged under the same key)
         /\ (Ev.i >= count => ~Ev.ok)
         /\ LET xs == Extents(Ev.i) IN
            (xs # {} /\ Ev.i < count) =>
              IF Ev.ok THEN \E x \in xs : InFile(x) /\ Ev.val = Slice(x)         \* delivered: exactly the recorded bytes
              ELSE TRUE                                                           \* refusing is always allowed ...
         /\ LET xs == Extents(Ev.i) IN                                            \* ... and required when no recorded extent lies in the file
            (xs # {} /\ Ev.i < count /\ \A x \in xs : ~InFile(x)) => ~Ev.ok
    [] OTHER -> TRUE
Call == /\ Ev.e = "Call" /\ UNCHANGED <<kind, image>>
        /\ count' = IF Ev.call = "GetCount" /\ Ev.ok THEN Ev.val ELSE count
        /\ Allowed
        /\ LET out == <<Ev.ok, Ev.val>> IN
           IF Ev.key \in DOMAIN resp THEN out = resp[Ev.key] /\ UNCHANGED resp
           ELSE resp' = resp @@ (Ev.key :> out)
Next == l <= Len(Log) /\ l' = l + 1 /\ (Reset \/ Call)
Spec == Init /\ [][Next]_vars
Accepted == TLCGet("stats").diameter - 1 = Len(Log)
===================================================================================
