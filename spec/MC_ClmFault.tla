---- MODULE MC_ClmFault ----
(***************************************************************************************************)
(* Fault model for C05 on CLM archives and on WAV intake: every truncation and every integer field  *)
(* of a valid image replaced by boundary values, plus coordinated corruptions.  Base images carry    *)
(* literal payloads so that a fault can address any byte.                                            *)
(***************************************************************************************************)
EXTENDS Clm, TLC, Mutate
CONSTANTS Seed, NRand
VARIABLES done
RECURSIVE FlatSegs(_)
FlatSegs(segs) == IF segs = <<>> THEN <<>>
                  ELSE LET s == Head(segs) IN (IF s.k = "b" THEN s.v ELSE Zeros(s.n)) \o FlatSegs(Tail(segs))
SetBytes(img, off, bs) == [i \in 1..Len(img) |-> IF i > off /\ i <= off + Len(bs) THEN bs[i - off] ELSE img[i]]
Trunc(img, k) == SubSeq(img, 1, k)
Boundary(old, flen) ==
  { LE32(0), LE32(1), LE32(15), LE32(16), LE32(17), LE32(59), LE32(60), LE32(61), LE32(flen), LE32(flen + 1), LE32(old + 1),
    <<255,255,255,127>>, <<0,0,0,128>>, <<255,255,255,255>>, <<240,255,255,255>>, <<248,255,255,255>>, <<0,0,0,16>> }
  \cup (IF old > 0 THEN { LE32(old - 1) } ELSE {}) \cup (IF flen > old THEN { LE32(flen - old), LE32(flen - old + 1) } ELSE {})
\* ---- CLM images with literal data ------------------------------------------------------------------
\* a member: [name, data : Seq(byte)]
ClmImage(ms) ==
  LET n == Len(ms)
      RECURSIVE Off(_)
      Off(i) == IF i = 1 THEN 60 + 16 * n ELSE Off(i - 1) + Len(ms[i - 1].data)
  IN Version \o Fmt18(DefaultFmt) \o Unknown6 \o LE32(n)
     \o Flatten([i \in 1..n |-> Name8(ms[i].name) \o LE32(Off(i)) \o LE32(Len(ms[i].data))])
     \o Flatten([i \in 1..n |-> ms[i].data])
ClmFields(ms) == { <<"count", 56>> } \cup UNION { { <<"entry.offset", 60 + 16 * (i - 1) + 8>>, <<"entry.length", 60 + 16 * (i - 1) + 12>> } : i \in 1..Len(ms) }
Old(img, off) == img[off + 1] + 256 * img[off + 2] + 65536 * img[off + 3]         \* the bases are small
ClmBases == << << [name |-> <<116,49>>, data |-> <<11,12,13,14,15>>], [name |-> <<84,50,95,108,111,110,103,56>>, data |-> <<21,22>>] >>,
               << [name |-> <<97>>, data |-> <<>>], [name |-> <<98>>, data |-> <<31,32,33>>], [name |-> <<99,99>>, data |-> <<41,42,43,44>>] >>,
               << [name |-> <<97>>, data |-> <<1,2,3>>], [name |-> <<122,122>>, data |-> <<>>] >>,         \* an empty member at the very end of the file
               <<>> >>
\* two call scripts per image: members in ascending and in descending order, so that a refused call is followed by calls on
\* other (intact) members in both directions
CallsDir(n, up) == << [call |-> "GetCount", i |-> 0] >> \o Flatten([j \in 1..(n + 2) |-> LET i == IF up THEN j - 1 ELSE n + 2 - j IN << [call |-> "GetName", i |-> i], [call |-> "GetSize", i |-> i],
                 [call |-> "OpenStream", i |-> i], [call |-> "GetName", i |-> i], [call |-> "Extract", i |-> i], [call |-> "SeekBeyond", i |-> i], [call |-> "OpenStreamAfterFailedRead", i |-> i], [call |-> "OpenStream", i |-> i] >>])
EmitClm(id, img, n) == \A up \in BOOLEAN : PrintT("S|" \o ToJson([id |-> <<id, up>>, steps |-> << [op |-> "robust_clm", image |-> img, calls |-> CallsDir(n, up)] >>]))
\* ---- WAV images ---------------------------------------------------------------------------------------
\* chunk list: <<tag, payload>>; RIFF size is computed, every chunk header is a fault target
Chunk(tag, payload) == tag \o LE32(Len(payload)) \o payload
WavImg(chunks) == LET body == TagWAVE \o Flatten([i \in 1..Len(chunks) |-> Chunk(chunks[i][1], chunks[i][2])]) IN TagRIFF \o LE32(Len(body)) \o body
RECURSIVE ChunkOff(_, _)
ChunkOff(chunks, i) == IF i = 1 THEN 12 ELSE ChunkOff(chunks, i - 1) + 8 + Len(chunks[i - 1][2])
WavFields(chunks) == { <<"riff.size", 4>> } \cup { <<"chunk.length", ChunkOff(chunks, i) + 4>> : i \in 1..Len(chunks) }
WavTagSites(chunks) == { 0, 8 } \cup { ChunkOff(chunks, i) : i \in 1..Len(chunks) }
WavBases == << << <<TagFmt, Fmt16(DefaultFmt)>>, <<TagData, <<1,2,3,4,5,6>> >> >>,
               << <<TagLIST, <<9,9>> >>, <<TagFmt, Fmt18(DefaultFmt)>>, <<TagLIST, <<>> >>, <<TagData, <<7,8>> >>, <<TagLIST, <<5,5,5,5>> >> >> >>
EmitWav(id, img) == PrintT("S|" \o ToJson([id |-> id, steps |-> << [op |-> "robust_wav", image |-> img] >>]))
Init == done = FALSE
Next == /\ ~done /\ done' = TRUE
        /\ \A bi \in 1..Len(ClmBases) :
             LET ms == ClmBases[bi]  img == ClmImage(ms)  flen == Len(img) IN
             /\ EmitClm(<<"base", bi>>, img, Len(ms))
             /\ \A k \in 0..(flen - 1) : EmitClm(<<"prefix", bi, k>>, Trunc(img, k), Len(ms))
             /\ \A f \in ClmFields(ms) : \A v \in Boundary(Old(img, f[2]), flen) : EmitClm(<<"field", bi, f[1], f[2], v>>, SetBytes(img, f[2], v), Len(ms))
             \* header text, unknown bytes and name bytes: single-byte faults
             /\ \A off \in {0, 25, 31, 32, 49, 50, 54, 55} : \A b \in {0, 255} : EmitClm(<<"byte", bi, off, b>>, SetBytes(img, off, <<b>>), Len(ms))
             /\ \A i \in 1..Len(ms) : \A b \in {0, 47, 255} : EmitClm(<<"name", bi, i, b>>, SetBytes(img, 60 + 16 * (i - 1), <<b>>), Len(ms))
             \* coordinated: count raised with the file extended so that the index still fits; all eight name bytes non-zero
             /\ EmitClm(<<"count+1-padded", bi>>, SetBytes(img, 56, LE32(Len(ms) + 1)) \o Zeros(16), Len(ms) + 1)
             /\ (Len(ms) > 0 => EmitClm(<<"name-unterminated", bi>>, SetBytes(img, 60, <<65,66,67,68,69,70,71,72>>), Len(ms)))
             \* coordinated: the LAST index entry without a single zero byte (8 name bytes, offset and length 0xFFFFFFFF): nothing terminates the name inside the table
             /\ (Len(ms) > 0 => EmitClm(<<"last-entry-no-zero-byte", bi>>, SetBytes(img, 60 + 16 * (Len(ms) - 1), <<65,66,67,68,69,70,71,72,255,255,255,255,255,255,255,255>>), Len(ms)))
             /\ (Len(ms) > 0 => EmitClm(<<"all-entries-no-zero-byte", bi>>, SetBytes(img, 60, [i \in 1..(16 * Len(ms)) |-> 200 + (i % 50)]), Len(ms)))
        /\ \A bi \in 1..Len(WavBases) :
             LET ch == WavBases[bi]  img == WavImg(ch)  flen == Len(img) IN
             /\ EmitWav(<<"wav-base", bi>>, img)
             /\ \A k \in 0..(flen - 1) : EmitWav(<<"wav-prefix", bi, k>>, Trunc(img, k))
             /\ \A f \in WavFields(ch) : \A v \in Boundary(Old(img, f[2]), flen) : EmitWav(<<"wav-field", bi, f[1], f[2], v>>, SetBytes(img, f[2], v))
             /\ \A off \in WavTagSites(ch) : EmitWav(<<"wav-tag", bi, off>>, SetBytes(img, off, <<88>>))
             \* coordinated: a chunk length that wraps a 32-bit cursor back onto the same chunk, with the RIFF size still matching the file
             /\ \A i \in 1..Len(ch) : \A v \in { <<248,255,255,255>>, <<240,255,255,255>>, <<247,255,255,255>> } :
                  EmitWav(<<"wav-wrap", bi, i, v>>, SetBytes(img, ChunkOff(ch, i) + 4, v))
             \* coordinated: data chunk announces more than the file holds, RIFF size adjusted to still match the file length
             /\ EmitWav(<<"wav-data-long", bi>>, LET di == CHOOSE i \in 1..Len(ch) : ch[i][1] = TagData IN SetBytes(img, ChunkOff(ch, di) + 4, LE32(Len(ch[di][2]) + 100)))
        /\ \A r \in 1..NRand : LET bi == 1 + (r % 2) IN
             /\ EmitClm(<<"random", Seed, r>>, Mutated(ClmImage(ClmBases[bi]), Seed * 607 + r), Len(ClmBases[bi]))
             /\ EmitWav(<<"wav-random", Seed, r>>, Mutated(WavImg(WavBases[bi]), Seed * 613 + r))
Spec == Init /\ [][Next]_done
====
