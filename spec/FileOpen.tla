---- MODULE FileOpen ----
(***************************************************************************************************)
(* FileWriter's open-flag matrix over a file system with one path.                                  *)
(* State of the path: "absent" | "file" (with a content) | "dir" | "noparent" (the directory the    *)
(* path lies in does not exist).  Flags: CanOpenExisting = 1, CanOpenNew = 2, Truncate = 4,         *)
(* Append = 8.  The property fixes: a refused open neither creates nor alters the file; Truncate     *)
(* discards the old content; Append preserves it and every write lands after it; a new file starts   *)
(* empty.  It does not say what happens to the content of an existing file opened with neither        *)
(* Truncate nor Append (the current code truncates it, an in-place overwrite would be as defensible):  *)
(* the specification marks the content "unspecified" from that open on and the harness does not        *)
(* compare it; that the open succeeds and the file exists afterwards is still checked.                 *)
(***************************************************************************************************)
EXTENDS Naturals, Sequences, FiniteSets, TLC, Json
VARIABLES fs, content, mode, unspec, nwrites
\* mode: "closed" | "fresh" (new or truncated) | "append" | "inplace"
vars == <<fs, content, mode, unspec, nwrites>>
Has(flags, bit) == (flags \div bit) % 2 = 1
States == {"absent", "file", "dir", "noparent"}
Old == <<7, 8, 9>>                            \* the content of a pre-existing file
Chunk(k) == <<100 + 2 * k - 1, 100 + 2 * k>>  \* the k-th write
Init == fs \in States /\ content = (IF fs = "file" THEN Old ELSE <<>>) /\ mode = "closed" /\ unspec = FALSE /\ nwrites = 0
BadFlags(f) == (~Has(f, 1) /\ ~Has(f, 2)) \/ (Has(f, 4) /\ Has(f, 8))
Refused(f) == \/ BadFlags(f)
              \/ fs = "dir"
              \/ fs = "file" /\ ~Has(f, 1)
              \/ fs \in {"absent", "noparent"} /\ ~Has(f, 2)
ModeOf(f) == IF fs # "file" \/ Has(f, 4) THEN "fresh" ELSE IF Has(f, 8) THEN "append" ELSE "inplace"
Emit(r) == PrintT("S|" \o ToJson(r))
RECURSIVE Chunks(_)
Chunks(k) == IF k = 0 THEN <<>> ELSE Chunks(k - 1) \o Chunk(k)
\* one scenario per (state, flags, number of writes): open, write k chunks, close, look at the path
Scenario(f, k) ==
  LET refused == Refused(f)
      m == ModeOf(f)
      base == IF m = "fresh" THEN <<>> ELSE content
  IN [id |-> <<fs, f, k>>, steps |-> << [op |-> "file_open", state |-> fs, flags |-> f, writes |-> k, old |-> content,
                                         expect |-> IF refused THEN "refused" ELSE "opened",
                                         existsAfter |-> IF refused THEN fs = "file" ELSE TRUE,
                                         parentAfter |-> (fs # "noparent") \/ ~refused,           \* a refused open leaves "noparent" as it is: the directory is not created either
                                         unspecified |-> ~refused /\ m = "inplace",
                                         final |-> IF refused THEN content ELSE base \o Chunks(k)] >>]
Open(f) == /\ mode = "closed" /\ nwrites = 0
           /\ \A k \in 0..2 : Emit(Scenario(f, k))
           /\ IF Refused(f) THEN UNCHANGED vars
              ELSE /\ mode' = ModeOf(f) /\ fs' = "file"
                   /\ content' = IF ModeOf(f) = "fresh" THEN <<>> ELSE content
                   /\ unspec' = (unspec \/ ModeOf(f) = "inplace")
                   /\ UNCHANGED nwrites
Write == /\ mode # "closed" /\ nwrites < 2
         /\ nwrites' = nwrites + 1
         /\ IF mode = "inplace" THEN UNCHANGED <<content, unspec>>
            ELSE content' = content \o Chunk(nwrites + 1) /\ UNCHANGED unspec
         /\ UNCHANGED <<fs, mode>>
Close == mode # "closed" /\ mode' = "closed" /\ UNCHANGED <<fs, content, unspec, nwrites>>
Next == (\E f \in 0..15 : Open(f)) \/ Write \/ Close
Spec == Init /\ [][Next]_vars
\* ---- model-level properties --------------------------------------------------------------------------------
\* a refused open changes nothing
RefusedChangesNothing == [][ (mode = "closed" /\ mode' = "closed") => (fs' = fs /\ content' = content) ]_vars
\* an open writer always has a file behind it
OpenedExists == mode # "closed" => fs = "file"
\* Append never loses what was there; Truncate / creation starts empty
AppendPreserves == [][ (mode' = "append" /\ mode = "closed") => content' = content ]_vars
FreshStartsEmpty == [][ (mode' = "fresh" /\ mode = "closed") => content' = <<>> ]_vars
\* with Append, the content only ever grows by suffixes
GrowsBySuffix == [][ mode = "append" => (Len(content') >= Len(content) /\ SubSeq(content', 1, Len(content)) = content) ]_vars
====
