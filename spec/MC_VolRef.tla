---- MODULE MC_VolRef ----
(* Bounded instance for C02, reader direction: archives from the independent encoder, with unused slots, index    *)
(* slack and LZH members, must be listed and extracted as the description says.                                  *)
EXTENDS Vol, TLC, Json
VARIABLES done
LZ == INSTANCE LzhEnc WITH NSym <- 314, MaxCount <- 65535
Lit8(c) == [k |-> "lit", c |-> c]
Mt(l, d) == [k |-> "match", len |-> l, dist |-> d]
TokSets == << << Mt(7, 3), Lit8(66), Mt(60, 60) >>,                 \* begins with matches reaching into the window as it is before the first byte (spaces)
              << Lit8(72), Lit8(105) >>, << Lit8(65), Mt(5, 0), Lit8(66) >>, << Mt(60, 4095), Lit8(0), Mt(3, 1) >>, <<>> >>
Plain(name, bytes) == [name |-> name, size |-> Len(bytes), kind |-> Uncompressed, stored |-> bytes, plain |-> bytes]
Packed(name, toks) == LET e == LZ!Encode(toks)  d == LZ!Decode(e.bytes) IN
                      [name |-> name, size |-> Len(e.payload), kind |-> LZH, stored |-> e.bytes, plain |-> d.out]
\* kinds the format lists but the library does not decode: listed with their stored bytes, refused on extraction
Other(name, kind, bytes) == [name |-> name, size |-> Len(bytes) + 3, kind |-> kind, stored |-> bytes, plain |-> <<>>]
Names3 == << <<97>>, <<98,46,120>>, <<99,99>> >>
Emit(id, steps) == PrintT("S|" \o ToJson([id |-> id, steps |-> steps]))
Case(ms, e, k) == [op |-> "vol_ref", image |-> RefEncode(ms, e, k),
                   listing |-> [i \in 1..Len(ms) |-> [name |-> ms[i].name, size |-> ms[i].size, kind |-> ms[i].kind, stored |-> ms[i].stored, plain |-> ms[i].plain]]]
Init == done = FALSE
Next == /\ ~done /\ done' = TRUE
        /\ \A n \in 0..3 : \A kinds \in [1..n -> {1, 2, 3}] : \A e \in 0..2 : \A k \in {0, 2, 13, 14, 15, 28} :
             LET ms == [i \in 1..n |-> IF kinds[i] = 1 THEN Plain(Names3[i], [j \in 1..(i + e) |-> (10 * i + j) % 256])
                                                    ELSE IF kinds[i] = 2 THEN Packed(Names3[i], TokSets[((i + e + k) % Len(TokSets)) + 1])
                                                    ELSE Other(Names3[i], 257 + ((i + e) % 2), [j \in 1..(i + 2) |-> (7 * i + j) % 256])]
             IN Emit(<<n, kinds, e, k>>, << Case(ms, e, k) >>)
Spec == Init /\ [][Next]_done
====
