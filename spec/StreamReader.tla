------------------------------- MODULE StreamReader -------------------------------
(***************************************************************************************************)
(* A forest of live readers over one immutable byte source (OP2Utility Stream::MemoryReader,       *)
(* Stream::FileReader, Stream::SliceReader<T>).                                                    *)
(*                                                                                                 *)
(* The semantics is over the naturals.  Call arguments are symbolic magnitudes so that values no   *)
(* TLC integer can hold are first-class: an argument is an index into                              *)
(*     0 .. N+1                exact small values                                                   *)
(*     HUGE                    2^31, 2^32, 2^63, 2^64-1                                             *)
(*     WRAP(d), d in 1..N+1    2^64 - d     (position + WRAP(d) wraps to position - d in 64 bits)  *)
(* Over the naturals every HUGE / WRAP value exceeds every bound that occurs.                      *)
(*                                                                                                 *)
(* Every action ends in Emit(record): TLC prints the complete labelled transition relation once;   *)
(* the conformance harness walks it against the real objects.                                      *)
(***************************************************************************************************)
EXTENDS Naturals, Sequences, FiniteSets, TLC, Json

CONSTANTS Content,     \* the source bytes, a sequence over 0..255
          MaxStreams   \* bound on simultaneously live streams

N == Len(Content)

---------------------------------------------------------------------------------------------------
(* symbolic arguments *)
NSmall == N + 2
HugeNames == <<"P31", "P32", "P63", "MAX">>
Arg == 0 .. (NSmall + 4 + N)
IsSmall(a) == a < NSmall
ArgStr(a) == IF IsSmall(a) THEN ToString(a)
             ELSE IF a < NSmall + 4 THEN HugeNames[a - NSmall + 1]
             ELSE "W" \o ToString(a - NSmall - 4 + 1)
ArgClass(a) == IF IsSmall(a) THEN "small" ELSE IF a < NSmall + 4 THEN "huge" ELSE "wrap"
Gt(a, b) == ~IsSmall(a) \/ a > b          \* a > b over the naturals

---------------------------------------------------------------------------------------------------
(* state: streams[i] = [base, len, pos]; base is the absolute offset of the stream's first byte in  *)
(* the source.  Stream 1 is the root reader; later streams are slices.                              *)
VARIABLE streams
Root == [base |-> 0, len |-> N, pos |-> 0]
Init == streams = <<Root>>
Live == DOMAIN streams
Rem(s) == streams[s].len - streams[s].pos
Abs(s) == streams[s].base + streams[s].pos
SetPos(s, p) == [streams EXCEPT ![s].pos = p]
Bytes(s, k) == SubSeq(Content, Abs(s) + 1, Abs(s) + k)      \* the k bytes at the cursor of s

Enc(st) == [i \in 1..Len(st) |-> <<st[i].base, st[i].len, st[i].pos>>]
Emit(r) == PrintT("T|" \o ToJson(r))
\* res: "ok" | "err" ; data: bytes returned (ok) ; to: successor ; free: TRUE when the acting stream's
\* position after a failed typed helper is not prescribed (any value in [pos, len], taken from the implementation)
Step(s, op, a, b, res, n, data, to, free) ==
  /\ streams' = to
  /\ Emit([f |-> Enc(streams), s |-> s, op |-> op, a |-> ArgStr(a), b |-> ArgStr(b), cls |-> ArgClass(a),
           res |-> res, n |-> n, data |-> data, t |-> Enc(to), free |-> free])
Fail(s, op, a, b) == Step(s, op, a, b, "err", 0, <<>>, streams, FALSE)

---------------------------------------------------------------------------------------------------
(* raw operations *)
Read(s, k) == IF Gt(k, Rem(s)) THEN Fail(s, "Read", k, 0)
              ELSE Step(s, "Read", k, 0, "ok", k, Bytes(s, k), SetPos(s, streams[s].pos + k), FALSE)
ReadPartial(s, k) == LET n == IF Gt(k, Rem(s)) THEN Rem(s) ELSE k IN
                     Step(s, "ReadPartial", k, 0, "ok", n, Bytes(s, n), SetPos(s, streams[s].pos + n), FALSE)
Peek(s, k) == IF Gt(k, Rem(s)) THEN Fail(s, "Peek", k, 0)
              ELSE Step(s, "Peek", k, 0, "ok", k, Bytes(s, k), streams, FALSE)
Seek(s, p) == IF Gt(p, streams[s].len) THEN Fail(s, "Seek", p, 0)
              ELSE Step(s, "Seek", p, 0, "ok", 0, <<>>, SetPos(s, p), FALSE)
SeekForward(s, d) == IF Gt(d, Rem(s)) THEN Fail(s, "SeekForward", d, 0)
                     ELSE Step(s, "SeekForward", d, 0, "ok", 0, <<>>, SetPos(s, streams[s].pos + d), FALSE)
SeekBackward(s, d) == IF Gt(d, streams[s].pos) THEN Fail(s, "SeekBackward", d, 0)
                      ELSE Step(s, "SeekBackward", d, 0, "ok", 0, <<>>, SetPos(s, streams[s].pos - d), FALSE)
SeekEnd(s) == Step(s, "SeekEnd", 0, 0, "ok", 0, <<>>, SetPos(s, streams[s].len), FALSE)
SeekBeginning(s) == Step(s, "SeekBeginning", 0, 0, "ok", 0, <<>>, SetPos(s, 0), FALSE)

---------------------------------------------------------------------------------------------------
(* slices *)
Contained(s, st, n) == IsSmall(st) /\ IsSmall(n) /\ st + n <= streams[s].len
Child(s, st, n) == [base |-> streams[s].base + st, len |-> n, pos |-> 0]
SliceAt(s, st, n) ==
  /\ Len(streams) < MaxStreams
  /\ IF Contained(s, st, n)
     THEN Step(s, "SliceAt", st, n, "ok", 0, <<>>, Append(streams, Child(s, st, n)), FALSE)
     ELSE Fail(s, "SliceAt", st, n)
SliceHere(s, n) ==
  /\ Len(streams) < MaxStreams
  /\ IF Contained(s, streams[s].pos, n)
     THEN Step(s, "SliceHere", n, 0, "ok", 0, <<>>,
               Append(SetPos(s, streams[s].pos + n), Child(s, streams[s].pos, n)), FALSE)
     ELSE Fail(s, "SliceHere", n, 0)
\* the newest stream may be dropped (keeps the live set a stack)
Drop == /\ Len(streams) > 1
        /\ Step(Len(streams), "Drop", 0, 0, "ok", 0, <<>>, SubSeq(streams, 1, Len(streams) - 1), FALSE)

---------------------------------------------------------------------------------------------------
(* typed helpers (Reader.h): the argument selects the variant                                      *)
\* size-prefixed container of single bytes, prefix type given by (width w in {1,2,4}, signed sg):
\*   negative prefix (signed, top bit set)            -> error
\*   count > remaining after the prefix               -> error
\*   otherwise                                        -> prefix + count bytes consumed, count bytes returned
\* After an error the position is not prescribed by the property ("reject with an error"): free = TRUE.
PrefixVariants == << <<1, FALSE>>, <<1, TRUE>>, <<2, FALSE>>, <<2, TRUE>>, <<4, FALSE>>, <<4, TRUE>> >>
ReadPrefixed(s, v) ==
  LET w == PrefixVariants[v][1]
      sg == PrefixVariants[v][2]
      name == "ReadPrefixed" \o (IF sg THEN "I" ELSE "U") \o ToString(8 * w)
  IN IF w > Rem(s) THEN Fail(s, name, 0, 0)         \* not even the prefix fits: plain failed read, nothing consumed
     ELSE LET pb == Bytes(s, w)
              neg == sg /\ pb[w] >= 128
              \* the count as a natural if it is small enough to matter, else "big"
              hiZero == \A i \in 3..w : pb[i] = 0
              cnt == pb[1] + (IF w >= 2 THEN 256 * pb[2] ELSE 0)
              fits == ~neg /\ hiZero /\ cnt <= Rem(s) - w
          IN IF fits
             THEN Step(s, name, 0, 0, "ok", cnt, SubSeq(Content, Abs(s) + w + 1, Abs(s) + w + cnt),
                       SetPos(s, streams[s].pos + w + cnt), FALSE)
             ELSE Step(s, name, 0, 0, "err", 0, <<>>, streams, TRUE)
\* fixed-size values (1, 2, 4, 8 bytes) and containers of n such elements consume exactly their encoded size, or fail like a raw read
Widths == <<1, 2, 4, 8>>
ReadValue(s, wi) == LET w == Widths[wi]  name == "ReadValue" \o ToString(8 * w) IN
                    IF w > Rem(s) THEN Fail(s, name, 0, 0)
                    ELSE Step(s, name, 0, 0, "ok", w, Bytes(s, w), SetPos(s, streams[s].pos + w), FALSE)
ReadContainer(s, n, wi) == LET w == Widths[wi]  name == "ReadContainer" \o ToString(8 * w) IN
                           IF ~IsSmall(n) THEN FALSE                     \* element counts are small (the container is resized by the caller)
                           ELSE IF n * w > Rem(s) THEN Fail(s, name, n, 0)
                           ELSE Step(s, name, n, 0, "ok", n * w, Bytes(s, n * w), SetPos(s, streams[s].pos + n * w), FALSE)
\* null-terminated string with a maximum count m (argument): characters are consumed one at a time until a
\* NUL (consumed, not returned) or m characters; running off the end first is an error (position free)
RECURSIVE ScanNul(_, _, _)
ScanNul(s, i, m) ==   \* number of bytes consumed starting at cursor+i, or N+1 if the stream ends first
  IF m = 0 THEN i
  ELSE IF streams[s].pos + i >= streams[s].len THEN N + 1
  ELSE IF Content[Abs(s) + i + 1] = 0 THEN i + 1
  ELSE ScanNul(s, i + 1, m - 1)
ReadCString(s, m) ==
  LET lim == IF IsSmall(m) THEN m ELSE N + 1          \* HUGE/WRAP maxima behave as "unbounded"
      c == ScanNul(s, 0, lim)
  IN IF c = N + 1 THEN Step(s, "ReadCString", m, 0, "err", 0, <<>>, streams, TRUE)
     ELSE LET raw == Bytes(s, c)
              str == IF c > 0 /\ raw[c] = 0 THEN SubSeq(raw, 1, c - 1) ELSE raw
          IN Step(s, "ReadCString", m, 0, "ok", Len(str), str, SetPos(s, streams[s].pos + c), FALSE)

---------------------------------------------------------------------------------------------------
Next ==
  \/ \E s \in Live, a \in Arg :
        Read(s, a) \/ ReadPartial(s, a) \/ Peek(s, a) \/ Seek(s, a) \/ SeekForward(s, a) \/ SeekBackward(s, a)
        \/ SliceHere(s, a) \/ ReadCString(s, a)
  \/ \E s \in Live : SeekEnd(s) \/ SeekBeginning(s)
  \/ \E s \in Live, v \in 1..Len(PrefixVariants) : ReadPrefixed(s, v)
  \/ \E s \in Live, wi \in 1..Len(Widths) : ReadValue(s, wi) \/ \E n \in 0..3 : ReadContainer(s, n, wi)
  \/ \E s \in Live, a \in Arg, b \in Arg : SliceAt(s, a, b)
  \/ Drop
Spec == Init /\ [][Next]_streams

---------------------------------------------------------------------------------------------------
(* model-level properties *)
PosInBounds == \A s \in Live : streams[s].pos \in 0..streams[s].len
Confined == \A s \in Live : streams[s].base + streams[s].len <= N
\* one step changes at most the acting stream (and appends / removes the newest)
Independence == [][ \/ Len(streams') < Len(streams)
                    \/ Cardinality({s \in Live : streams'[s] # streams[s]}) <= 1 ]_streams
===================================================================================================
