---- MODULE ArchiveStreams ----
(***************************************************************************************************)
(* C13, archive clause: member streams opened from one archive object, copies of them, and the       *)
(* archive's own calls keep independent positions under every interleaving.                          *)
(* State: the live streams, each [m (member), pos].  Actions: open a member stream, copy a stream     *)
(* (the copy starts at the beginning of the member: that is what the library's slice copy does, and    *)
(* the property only asks for independence afterwards), read / partial-read / seek on any stream, and   *)
(* archive calls in between (name, size, index lookup, extraction, a refused out-of-range call), which   *)
(* must not disturb any stream.  Every behaviour up to Depth operations is exported with the expected     *)
(* observation of each operation.                                                                        *)
(***************************************************************************************************)
EXTENDS Naturals, Sequences, FiniteSets, TLC, Json
CONSTANTS Sizes,        \* member sizes, e.g. <<3, 2, 0>>
          MaxStreams, Depth
VARIABLES streams, hist
vars == <<streams, hist>>
NMem == Len(Sizes)
SizesA == <<3, 2, 0>>     \* (a TLC configuration file cannot hold a sequence: the instance substitutes Sizes <- SizesA)
SizesB == <<1, 4>>
Init == streams = <<>> /\ hist = <<>>
Live == DOMAIN streams
Rem(s) == Sizes[streams[s].m] - streams[s].pos
Log(e) == hist' = Append(hist, e)
Open(m) == /\ Len(streams) < MaxStreams
           /\ streams' = Append(streams, [m |-> m, pos |-> 0])
           /\ Log([op |-> "open", m |-> m - 1, ok |-> TRUE])
OpenBad == /\ UNCHANGED streams /\ Log([op |-> "open", m |-> NMem, ok |-> FALSE])      \* an index beyond the archive: refused, nothing changes
Copy(s) == /\ Len(streams) < MaxStreams
           /\ streams' = Append(streams, [m |-> streams[s].m, pos |-> 0])
           /\ Log([op |-> "copy", s |-> s - 1])
Read(s, k) == IF k > Rem(s) THEN UNCHANGED streams /\ Log([op |-> "read", s |-> s - 1, k |-> k, ok |-> FALSE, m |-> streams[s].m - 1, from |-> 0, n |-> 0, posAfter |-> streams[s].pos])
              ELSE /\ streams' = [streams EXCEPT ![s].pos = @ + k]
                   /\ Log([op |-> "read", s |-> s - 1, k |-> k, ok |-> TRUE, m |-> streams[s].m - 1, from |-> streams[s].pos, n |-> k, posAfter |-> streams[s].pos + k])
ReadPartial(s, k) == LET n == IF k > Rem(s) THEN Rem(s) ELSE k IN
                     /\ streams' = [streams EXCEPT ![s].pos = @ + n]
                     /\ Log([op |-> "readpartial", s |-> s - 1, k |-> k, ok |-> TRUE, m |-> streams[s].m - 1, from |-> streams[s].pos, n |-> n, posAfter |-> streams[s].pos + n])
Seek(s, p) == IF p > Sizes[streams[s].m] THEN UNCHANGED streams /\ Log([op |-> "seek", s |-> s - 1, p |-> p, ok |-> FALSE, posAfter |-> streams[s].pos])
              ELSE streams' = [streams EXCEPT ![s].pos = p] /\ Log([op |-> "seek", s |-> s - 1, p |-> p, ok |-> TRUE, posAfter |-> p])
Call(c, m) == UNCHANGED streams /\ Log([op |-> "call", c |-> c, m |-> m - 1])
Calls == {"name", "size", "index", "extract"}
Next == /\ Len(hist) < Depth
        /\ \/ \E m \in 1..NMem : Open(m)
           \/ OpenBad
           \/ \E s \in Live : Copy(s) \/ Read(s, 1) \/ Read(s, 2) \/ ReadPartial(s, 2) \/ Seek(s, 1)
           \/ \E c \in Calls : Call(c, 1 + (Len(hist) % NMem))
Spec == Init /\ [][Next]_vars
\* ---- model-level properties --------------------------------------------------------------------------------------
PosInBounds == \A s \in Live : streams[s].pos <= Sizes[streams[s].m]
\* one step changes at most one existing stream; archive calls and refused calls change none
Independence == [][ Cardinality({s \in Live : streams'[s] # streams[s]}) <= 1 ]_vars
CallsDisturbNothing == [][ (hist' # hist /\ hist'[Len(hist')].op \in {"call", "copy", "open"}) => \A s \in Live : streams'[s] = streams[s] ]_vars
Export == Len(hist) = Depth => PrintT("S|" \o ToJson([id |-> [i \in 1..Len(hist) |-> hist[i].op], steps |-> << [op |-> "arch_interleave", sizes |-> Sizes, ops |-> hist] >>]))
====
