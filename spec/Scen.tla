--------------------------------- MODULE Scen ---------------------------------
(* Vocabulary of conformance scenarios: a scenario is a sequence of steps executed by harness/scen_run *)
(* against the real library inside a sandbox directory.  Paths and names are sequences of ASCII codes. *)
EXTENDS Naturals, Sequences
MkDir(p) == [op |-> "mkdir", path |-> p]
Put(p, segs) == [op |-> "put", path |-> p, segs |-> segs]
FileEq(p, segs) == [op |-> "file_eq", path |-> p, segs |-> segs]
FileAbsent(p) == [op |-> "file_absent", path |-> p]
VolCreate(out, inputs, expect) == [op |-> "vol_create", out |-> out, inputs |-> inputs, expect |-> expect]
\* the same with the paths handed to the library exactly as spelled, relative to the sandbox as current directory (leading "./" matters)
VolCreateRel(out, inputs, expect) == [op |-> "vol_create", out |-> out, inputs |-> inputs, expect |-> expect, rel |-> TRUE]
VolOpen(p, listing) == [op |-> "vol_open", path |-> p, expect |-> "ok", listing |-> listing]
NoIndex == 9999                                                            \* "not contained": lookup refuses
VolOpenL(p, listing, fileLen) == [op |-> "vol_open", path |-> p, expect |-> "ok", listing |-> listing, fileLen |-> fileLen]   \* ... with the archive's size
VolStreamByName(n, segs) == [op |-> "vol_stream", name |-> n, expect |-> "ok", segs |-> segs]
VolIndex(n, i) == [op |-> "vol_index", name |-> n, expect |-> i]
VolStream(i, segs) == [op |-> "vol_stream", i |-> i, expect |-> "ok", segs |-> segs]
VolStreamErr(i) == [op |-> "vol_stream", i |-> i, expect |-> "err", segs |-> <<>>]
VolExtract(i, dest, segs) == [op |-> "vol_extract", i |-> i, dest |-> dest, expect |-> "ok", segs |-> segs]
VolExtractByName(n, dest, segs) == [op |-> "vol_extract_name", name |-> n, dest |-> dest, expect |-> "ok", segs |-> segs]
VolExtractAll(dir) == [op |-> "vol_extract_all", dir |-> dir]
ClmCreate(out, inputs, expect) == [op |-> "clm_create", out |-> out, inputs |-> inputs, expect |-> expect]
ClmOpen(p, listing) == [op |-> "clm_open", path |-> p, expect |-> "ok", listing |-> listing]
VolMemberErr(i) == [op |-> "vol_member_err", i |-> i]                      \* every per-member call refuses index i
===============================================================================
