---- MODULE LzhDrain ----
(***************************************************************************************************)
(* The drain interface of the LZH decompressor (HuffLZ::GetData / GetInternalBuffer) as the code     *)
(* structures it: a circular buffer of W bytes that doubles as LZ window and output queue, a fill       *)
(* loop that decodes codes while fewer than MaxFill bytes are waiting, and the two ways of taking        *)
(* bytes out.  A code produces 1 byte (literal) or a run of up to M bytes (match).                        *)
(*                                                                                                     *)
(* The abstract contract (what C04 states): the bytes handed out, in order, are exactly the decoder's      *)
(* output; GetData(n) hands out min(n, what is left); GetInternalBuffer hands out a non-empty chunk         *)
(* unless everything has been delivered.  Bytes are identified with their index in the decoder's output,     *)
(* so "the right bytes" is "ring cell (k-1) mod W still holds k for every undelivered k".                   *)
(*                                                                                                     *)
(* The real constants (W = 4096, M = 60, MaxFill = W - M - 1) are bound by conformance (the drain           *)
(* schedules of `lzh` / `lzh_long`); here TLC checks the design for scaled constants and every choice of     *)
(* code lengths, end of input and call sizes - and shows that a threshold one larger is wrong.               *)
(***************************************************************************************************)
EXTENDS Naturals, Sequences, FiniteSets, TLC
CONSTANTS W,          \* ring size
          M,          \* longest run one code can produce
          MaxFill,    \* decode another code only while fewer than MaxFill bytes are waiting
          MaxCodes,   \* bound on the number of codes in the input
          Sizes       \* GetData sizes offered
VARIABLES L,          \* bytes decoded so far
          D,          \* bytes delivered so far
          ring,       \* ring[i] = output index of the byte in cell i (0 = initial window content)
          codes,      \* codes decoded so far
          eos, pc, need, got, want, chunk
vars == <<L, D, ring, codes, eos, pc, need, got, want, chunk>>
Waiting == L - D
WriteIx == L % W
ReadIx == D % W
\* what the code computes as the fill level: (write - read) masked to the ring size
FillLevel == (WriteIx + W - ReadIx) % W
Init == L = 0 /\ D = 0 /\ ring = [i \in 0..(W - 1) |-> 0] /\ codes = 0 /\ eos = FALSE /\ pc = "idle" /\ need = 0 /\ got = 0 /\ want = 0 /\ chunk = 0
\* ---- the fill loop: one code per step -------------------------------------------------------------------------
DecodeOne(len, last) ==
  /\ ring' = [i \in 0..(W - 1) |-> IF (i + W - WriteIx) % W < len THEN L + 1 + ((i + W - WriteIx) % W) ELSE ring[i]]
  /\ L' = L + len /\ codes' = codes + 1 /\ eos' = last
FillStep(next) ==      \* next: where to go when the loop ends
  IF eos \/ FillLevel >= MaxFill THEN pc' = next /\ UNCHANGED <<L, D, ring, codes, eos, need, got, want, chunk>>
  ELSE /\ \E len \in 1..M : \E last \in BOOLEAN : (codes + 1 = MaxCodes => last) /\ DecodeOne(len, last)
       /\ UNCHANGED <<D, pc, need, got, want, chunk>>
\* ---- GetData(n): fill, copy what is there, repeat while more is wanted and the input has not ended -----------------
CallGetData(n) == pc = "idle" /\ pc' = "gd_fill" /\ need' = n /\ want' = n /\ got' = 0 /\ UNCHANGED <<L, D, ring, codes, eos, chunk>>
GdFill == pc = "gd_fill" /\ FillStep("gd_copy")
GdCopy == /\ pc = "gd_copy"
          /\ LET avail == FillLevel        \* the code trusts its masked difference
                 c == IF need < avail THEN need ELSE avail IN
             /\ D' = D + c /\ need' = need - c /\ got' = got + c
             /\ pc' = IF need - c > 0 /\ ~eos THEN "gd_fill" ELSE "gd_ret"
          /\ UNCHANGED <<L, ring, codes, eos, want, chunk>>
GdReturn == pc = "gd_ret" /\ pc' = "idle" /\ UNCHANGED <<L, D, ring, codes, eos, need, got, want, chunk>>
\* ---- GetInternalBuffer: fill, hand out the contiguous part of the queue ----------------------------------------------
CallIBuf == pc = "idle" /\ pc' = "ib_fill" /\ UNCHANGED <<L, D, ring, codes, eos, need, got, want, chunk>>
IbFill == pc = "ib_fill" /\ FillStep("ib_take")
IbTake == /\ pc = "ib_take"
          /\ LET c == IF WriteIx < ReadIx THEN W - ReadIx ELSE WriteIx - ReadIx IN chunk' = c /\ D' = D + c
          /\ pc' = "ib_ret" /\ UNCHANGED <<L, ring, codes, eos, need, got, want>>
IbReturn == pc = "ib_ret" /\ pc' = "idle" /\ UNCHANGED <<L, D, ring, codes, eos, need, got, want, chunk>>
Next == (\E n \in Sizes : CallGetData(n)) \/ GdFill \/ GdCopy \/ GdReturn \/ CallIBuf \/ IbFill \/ IbTake \/ IbReturn
Spec == Init /\ [][Next]_vars
\* ---- properties ------------------------------------------------------------------------------------------------------
\* the queue never holds W or more bytes (write index = read index must mean "empty")
NoOverrun == Waiting <= W - 1
\* every undelivered byte is still in its cell: filling never overwrote it
RingHoldsUndelivered == \A k \in (D + 1)..L : ring[(k - 1) % W] = k
\* the masked fill level is the true number of waiting bytes (what CopyAvailableData relies on)
FillLevelIsWaiting == FillLevel = Waiting
\* GetData(n) returns n bytes, or everything that was left when the input ended
GetDataContract == pc = "gd_ret" => (got = want \/ (eos /\ D = L)) /\ got <= want
\* GetInternalBuffer returns a chunk of the next bytes, and nothing only when everything has been delivered
IBufContract == pc = "ib_ret" => (chunk <= W /\ (chunk = 0 => (eos /\ D = L)))
DeliveredInOrder == D <= L
\* the counters follow the abstract machine whose inductive invariant Apalache discharges for every W, M, MaxFill with MaxFill + M <= W
Abs == INSTANCE DrainBounds
RefinesBounds == Abs!Spec
====
