---- MODULE Huffman ----
(* Adaptive Huffman code (sibling-property / FGK update as used by LZHUF-style coders).           *)
(* Nodes 1..NNode are kept in non-decreasing weight order, siblings adjacent (2k-1, 2k);           *)
(* NNode is the root. A tree value is a record of five functions.                                  *)
EXTENDS Naturals, Sequences, FiniteSets
CONSTANTS NSym, MaxCount
NNode == 2 * NSym - 1
Root == NNode
Syms == 0..(NSym - 1)
RECURSIVE InitW(_)
InitW(i) == IF i <= NSym THEN 1 ELSE InitW(2 * (i - NSym) - 1) + InitW(2 * (i - NSym))
InitTree ==
  [ kid  |-> [i \in 1..NNode |-> IF i <= NSym THEN 0 ELSE 2 * (i - NSym) - 1],
    sym  |-> [i \in 1..NNode |-> IF i <= NSym THEN i - 1 ELSE 0],
    wt   |-> [i \in 1..NNode |-> InitW(i)],
    par  |-> [i \in 1..NNode |-> IF i = Root THEN 0 ELSE NSym + ((i + 1) \div 2)],
    leaf |-> [s \in Syms |-> s + 1] ]
IsLeaf(t, i) == t.kid[i] = 0
\* block leader: the highest-numbered node with the same weight as c
Leader(t, c) == CHOOSE j \in c..NNode : t.wt[j] = t.wt[c] /\ (j = NNode \/ t.wt[j + 1] > t.wt[c])
\* exchange the subtrees hanging at positions c and l (weights are equal, so they stay in place)
Swap(t, c, l) ==
  IF c = l THEN t ELSE
  LET k2 == [t.kid EXCEPT ![c] = t.kid[l], ![l] = t.kid[c]]
      s2 == [t.sym EXCEPT ![c] = t.sym[l], ![l] = t.sym[c]]
      p1 == IF t.kid[c] # 0 THEN [t.par EXCEPT ![t.kid[c]] = l, ![t.kid[c] + 1] = l] ELSE t.par
      p2 == IF t.kid[l] # 0 THEN [p1 EXCEPT ![t.kid[l]] = c, ![t.kid[l] + 1] = c] ELSE p1
      l1 == IF t.kid[c] = 0 THEN [t.leaf EXCEPT ![t.sym[c]] = l] ELSE t.leaf
      l2 == IF t.kid[l] = 0 THEN [l1 EXCEPT ![t.sym[l]] = c] ELSE l1
  IN [kid |-> k2, sym |-> s2, wt |-> t.wt, par |-> p2, leaf |-> l2]
RECURSIVE Climb(_, _)
Climb(t, c) ==
  IF c = Root THEN [t EXCEPT !.wt[Root] = @ + 1]
  ELSE LET l == Leader(t, c)
           u == Swap(t, c, l)
           v == [u EXCEPT !.wt[l] = @ + 1]
       IN Climb(v, v.par[l])
AtCapacity(t) == t.wt[Root] >= MaxCount
CanUpdate(t, x) == x \in Syms /\ ~AtCapacity(t)
Update(t, x) == Climb(t, t.leaf[x])
\* path from the root to the leaf of x: sequence of branch bits (0 = left, 1 = right), root first
RECURSIVE PathUp(_, _)
PathUp(t, i) == IF i = Root THEN <<>> ELSE Append(PathUp(t, t.par[i]), IF i = t.kid[t.par[i]] THEN 0 ELSE 1)
EncodePath(t, x) == PathUp(t, t.leaf[x])
RECURSIVE Walk(_, _, _)
Walk(t, i, bits) == IF IsLeaf(t, i) \/ bits = <<>> THEN i ELSE Walk(t, t.kid[i] + Head(bits), Tail(bits))
\* shape as nested tuples: leaf -> symbol, inner -> <<left, right>>
RECURSIVE ShapeAt(_, _)
ShapeAt(t, i) == IF IsLeaf(t, i) THEN t.sym[i] ELSE <<ShapeAt(t, t.kid[i]), ShapeAt(t, t.kid[i] + 1)>>
Shape(t) == ShapeAt(t, Root)
RECURSIVE Reach(_, _)
Reach(t, i) == IF IsLeaf(t, i) THEN {i} ELSE {i} \cup Reach(t, t.kid[i]) \cup Reach(t, t.kid[i] + 1)
\* ---- invariants -----------------------------------------------------------------------------
FullBinary(t) == \A i \in 1..NNode : ~IsLeaf(t, i) => t.kid[i] \in 1..(NNode - 1) /\ t.kid[i] % 2 = 1 /\ t.kid[i] < i
OneLeafPerSymbol(t) == /\ \A s \in Syms : IsLeaf(t, t.leaf[s]) /\ t.sym[t.leaf[s]] = s
                       /\ Cardinality({i \in 1..NNode : IsLeaf(t, i)}) = NSym
                       /\ \A i \in 1..NNode : IsLeaf(t, i) => t.leaf[t.sym[i]] = i
AllReachable(t) == Reach(t, Root) = 1..NNode
SiblingOrder(t) == \A i \in 1..(NNode - 1) : t.wt[i] <= t.wt[i + 1]
WeightSums(t) == \A i \in 1..NNode : ~IsLeaf(t, i) => t.wt[i] = t.wt[t.kid[i]] + t.wt[t.kid[i] + 1]
ParentLinks(t) == \A i \in 1..NNode : ~IsLeaf(t, i) => t.par[t.kid[i]] = i /\ t.par[t.kid[i] + 1] = i
EncodeDrivesDecode(t) == \A s \in Syms : Walk(t, Root, EncodePath(t, s)) = t.leaf[s]
TreeOK(t) == FullBinary(t) /\ OneLeafPerSymbol(t) /\ AllReachable(t) /\ SiblingOrder(t)
             /\ WeightSums(t) /\ ParentLinks(t) /\ EncodeDrivesDecode(t)
====
