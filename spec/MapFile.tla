---- MODULE MapFile ----
(* Outpost 2 map files: layout, decoding conditions, normalisation, tile addressing, tile fields. *)
EXTENDS Naturals, Sequences, FiniteSets, TLC, Json, Bytes
MinVersion == 4112    \* 0x1010
Marker == <<84, 73, 76, 69, 32, 83, 69, 84, 26, 0>>   \* "TILE SET" 0x1A 0x00
RECURSIVE Pow2(_)
Pow2(k) == IF k = 0 THEN 1 ELSE 2 * Pow2(k - 1)
\* a logical map:
\*  [ver, saved \in BOOLEAN, lg, h, tiles : Seq(word as 4 bytes), clip : Seq(16 bytes),
\*    sources : Seq([name : Seq(code), n : 4 bytes]), mappings : Seq(8 bytes), terrains : Seq(blob id),
\*    groups : Seq([w, h, idx : Seq(4 bytes), name : Seq(code)]) ]
Width(m) == Pow2(m.lg)
TileCount(m) == m.h * Width(m)
Prefixed(bs) == LE32(Len(bs)) \o bs
SourceBytes(s) == Prefixed(s.name) \o (IF Len(s.name) > 0 THEN s.n ELSE <<>>)
GroupBytes(g) == LE32(g.w) \o LE32(g.h) \o Flatten(g.idx) \o Prefixed(g.name)
Header(m, savedWord) == LE32(m.ver) \o savedWord \o LE32(m.lg) \o LE32(m.h) \o LE32(Len(m.sources))
\* savedWord: what the file holds (any 32-bit word); the writer emits 0/1
EncodeWith(m, savedWord, unknownWord, trailing) ==
  << Lit(Header(m, savedWord) \o Flatten(m.tiles) \o m.clip
         \o Flatten([i \in 1..Len(m.sources) |-> SourceBytes(m.sources[i])])
         \o Marker \o LE32(Len(m.mappings)) \o Flatten(m.mappings) \o LE32(Len(m.terrains))) >>
  \o [i \in 1..Len(m.terrains) |-> Blob(m.terrains[i], 0, 264)]
  \o << Lit(LE32(m.ver) \o LE32(m.ver) \o LE32(Len(m.groups)) \o unknownWord
            \o Flatten([i \in 1..Len(m.groups) |-> GroupBytes(m.groups[i])]) \o trailing) >>
RegenUnknown(m) == LE32(IF Len(m.groups) = 0 THEN 0 ELSE Len(m.groups) - 1)
Encode(m) == EncodeWith(m, LE32(IF m.saved THEN 1 ELSE 0), RegenUnknown(m), <<>>)
\* what the reader must accept
Acceptable(m) == /\ m.ver >= MinVersion
                 /\ Len(m.tiles) = TileCount(m)
                 /\ \A i \in 1..Len(m.sources) : Len(m.sources[i].name) <= 8
                 /\ \A i \in 1..Len(m.groups) : Len(m.groups[i].idx) = m.groups[i].w * m.groups[i].h

\* ---- saved games: a fixed-size header to skip, the map prefix, a version tag, the unit block, a version tag ---------
SaveSkip == 122917                                  \* 0x1E025
\* the part of a map that a saved game shares (everything up to and including the terrain types)
PrefixWith(m, savedWord) ==
  << Lit(Header(m, savedWord) \o Flatten(m.tiles) \o m.clip
         \o Flatten([i \in 1..Len(m.sources) |-> SourceBytes(m.sources[i])])
         \o Marker \o LE32(Len(m.mappings)) \o Flatten(m.mappings) \o LE32(Len(m.terrains))) >>
  \o [i \in 1..Len(m.terrains) |-> Blob(m.terrains[i], 0, 264)]
\* unit block: five words, two object counts, the objects, two unit ids, 2047 unit records of 120 bytes, and a
\* 2048-word free list that is present only when firstFree # nextFree
UnitBlock(unitCount, nextFree, firstFree, sizeOfUnit, n1, n2) ==
  << Lit(LE32(unitCount) \o LE32(0) \o LE32(nextFree) \o LE32(firstFree) \o LE32(sizeOfUnit) \o LE32(n1) \o LE32(n2)),
     Zr(512 * n1), Zr(4 * n2), Lit(LE32(0) \o LE32(0)), Zr(2047 * 120) >>
  \o (IF firstFree # nextFree THEN << Zr(2048 * 4) >> ELSE <<>>)
SavedGame(m, ub) == << Zr(SaveSkip) >> \o PrefixWith(m, <<1, 0, 0, 0>>) \o << Lit(LE32(m.ver)) >> \o ub \o << Lit(LE32(m.ver)) >>
\* ---- tile addressing and fields -------------------------------------------------------------
TileIndex(x, y, h) == ((x \div 32) * h + y) * 32 + (x % 32)
Bijective(w, h) == LET idx == {TileIndex(x, y, h) : x \in 0..(w - 1), y \in 0..(h - 1)} IN
                   idx = 0..(w * h - 1) /\ Cardinality(idx) = w * h
\* a tile word as a natural below 2^31 is not enough (bit 31): fields are taken from its four bytes
CellTypeOf(b) == b[1] % 32
MappingOf(b) == (b[1] \div 32) + 8 * b[2]           \* 3 + 8 bits
LavaPossibleOf(b) == (b[4] \div 16) % 2
SetCellTypeB(b, c) == [b EXCEPT ![1] = (b[1] \div 32) * 32 + c]
SetLavaPossibleB(b, v) == [b EXCEPT ![4] = b[4] - 16 * ((b[4] \div 16) % 2) + 16 * v]
\* the mapping table of the addressing probes: entry k names tileset (7k+3) mod 2^16 and image (13k+1) mod 2^16
ProbeMapping(k) == << (k * 7 + 3) % 65536, (k * 13 + 1) % 65536 >>
\* ---- public edits ------------------------------------------------------------------------------
SetCellType(m, c, x, y) == [m EXCEPT !.tiles[TileIndex(x, y, m.h) + 1] = SetCellTypeB(@, c)]
SetLavaPossible(m, v, x, y) == [m EXCEPT !.tiles[TileIndex(x, y, m.h) + 1] = SetLavaPossibleB(@, v)]
SetVersionTag(m, v) == [m EXCEPT !.ver = v]
IsEmptySource(s) == s.n = <<0, 0, 0, 0>> \/ Len(s.name) = 0
Trim(m) == [m EXCEPT !.sources = SelectSeq(@, LAMBDA s : ~IsEmptySource(s))]
====
