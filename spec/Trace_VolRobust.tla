---- MODULE Trace_VolRobust ----
(***************************************************************************************************)
(* Pipeline V for C05 on VOL archives: the loose contract.  For an arbitrary image                  *)
(*   - every call either succeeds or is refused (the harness reports anything else as a crash);      *)
(*   - responses are a function of the image: the same call gives the same answer on the long-lived   *)
(*     object, on a fresh object, before and after other (failed) calls;                              *)
(*   - indices at or beyond the reported count are refused by every per-member call;                  *)
(*   - a member stream that is delivered consists of exactly the image bytes at the extent the image   *)
(*     records for that member, and if that extent does not lie inside the image the call is refused.  *)
(* Events: {"e":"Reset","image":[..]}  {"e":"Call","obj":"long"|"fresh","call":..,"i":..,"key":..,     *)
(*          "ok":bool,"val":..}                                                                        *)
(***************************************************************************************************)
EXTENDS Naturals, Sequences, TLC, Json, IOUtils
Log == ndJsonDeserialize(IOEnv.TRACE)
VARIABLES l, image, resp, count
vars == <<l, image, resp, count>>
Ev == Log[l]
Init == l = 1 /\ image = <<>> /\ resp = <<>> /\ count = 0
FLen == Len(image)
\* 32-bit little-endian field at 0-based offset o, as <<hi16, lo16>>; "none" if it does not lie in the image
U32At(o) == IF o + 4 > FLen THEN <<0, 0, FALSE>> ELSE << image[o + 3] + 256 * image[o + 4], image[o + 1] + 256 * image[o + 2], TRUE >>
\* value of a section-length word (bits 0..30) if it is small enough to matter, else "beyond the file"
Small31(f) == f[3] /\ (f[1] % 32768) = 0          \* fits 16 bits after dropping the flag
Val31(f) == f[2]
\* where the index table starts according to the image: after 'VOL ' 'volh' 'vols'+padded names
VolsLen == U32At(20)
IndexAt == IF Small31(VolsLen) THEN 24 + Val31(VolsLen) + 8 ELSE 0       \* first entry; 0 = cannot be located
EntryBlock(i) == U32At(IndexAt + 14 * i + 4)
\* the extent the image records for member i: <<known, offset, length>>
Extent(i) ==
  IF IndexAt = 0 THEN <<FALSE, 0, 0>>
  ELSE LET b == EntryBlock(i) IN
       IF ~b[3] \/ b[1] # 0 THEN <<TRUE, FLen + 1, 0>>                     \* block offset outside any small file
       ELSE LET hdr == U32At(b[2] + 4) IN
            IF ~hdr[3] THEN <<TRUE, FLen + 1, 0>>
            ELSE IF (hdr[1] % 32768) # 0 THEN <<TRUE, b[2] + 8, FLen + 1>>   \* length beyond the file
            ELSE <<TRUE, b[2] + 8, hdr[2]>>
InFile(off, n) == off + n <= FLen
Slice(off, n) == SubSeq(image, off + 1, off + n)
Reset == Ev.e = "Reset" /\ image' = Ev.image /\ resp' = <<>> /\ count' = 0
Allowed ==
  CASE Ev.call = "GetCount" -> TRUE
    [] Ev.call \in {"GetName", "GetSize", "Extract"} -> (Ev.i >= count => ~Ev.ok)
    [] Ev.call = "OpenStream" ->
         /\ (Ev.i >= count => ~Ev.ok)
         /\ LET x == Extent(Ev.i) IN
            x[1] /\ Ev.i < count =>
              IF InFile(x[2], x[3]) THEN (Ev.ok => Ev.val = Slice(x[2], x[3])) ELSE ~Ev.ok
    [] OTHER -> TRUE
Call == /\ Ev.e = "Call" /\ UNCHANGED image
        /\ count' = IF Ev.call = "GetCount" /\ Ev.ok THEN Ev.val ELSE count
        /\ Allowed
        /\ LET out == <<Ev.ok, Ev.val>> IN
           IF Ev.key \in DOMAIN resp THEN out = resp[Ev.key] /\ UNCHANGED resp
           ELSE resp' = resp @@ (Ev.key :> out)
Next == l <= Len(Log) /\ l' = l + 1 /\ (Reset \/ Call)
Spec == Init /\ [][Next]_vars
Accepted == TLCGet("stats").diameter - 1 = Len(Log)
====
