---- MODULE MC_Prt ----
(* Bounded instance for C10 (and the layer-count clause of C20). *)
EXTENDS Prt, Rand
CONSTANTS Seed, NRand
VARIABLES fam, par
vars == <<fam, par>>
Pal(k) == [i \in 1..256 |-> <<(i + k) % 256, (2 * i) % 256, (510 - i) % 256, k % 256>>]
L(k) == <<k % 256, 0, 7, k % 256, 1, 0, 255, 255>>
F(n, o1, o2, extra) == [n1 |-> n, o1 |-> o1, n2 |-> 5, o2 |-> o2, opt |-> <<11, 12, 13, 14>>, layers |-> [i \in 1..(n + extra) |-> L(i)]]
Img(w, okScan, pal) == [scan |-> IF okScan THEN RoundUp4(w) ELSE RoundUp4(w) + 4, off |-> 100 + w, h |-> 3, w |-> w, type |-> 5, pal |-> pal]
Anim(frames, nunk) == [u1 |-> <<1,2,3,4>>, rect |-> [i \in 1..16 |-> i], disp |-> [i \in 1..8 |-> 100 + i], u2 |-> <<60,0,0,0>>,
                       frames |-> frames, unk |-> [k \in 1..nunk |-> [i \in 1..16 |-> 200 + i + k]]]
V(np, imgs, anims) == [palettes |-> [k \in 1..np |-> Pal(k)], images |-> imgs, anims |-> anims, unknownCount |-> 77]
Emit(id, steps) == PrintT("S|" \o ToJson([id |-> id, steps |-> steps]))
RT(v, hdr) == [op |-> "prt_roundtrip", input |-> EncodeWith(v, hdr), canon |-> Encode(v), value |-> v]
\* the reader refuses the encoding of a value that violates the image rules (palette index, scan-line width), and accepts the others
ReadCase(v) == [op |-> "prt_read", input |-> Encode(v), expect |-> IF RulesHold(v) THEN "ok" ELSE "refuse"]
WriteCase(v) == [op |-> "prt_write", value |-> v, expect |-> IF RulesHold(v) THEN "ok" ELSE "refuse", canon |-> IF RulesHold(v) THEN Encode(v) ELSE <<>>]
FrameSets == << <<>>, << F(0,0,0,0) >>, << F(1,1,0,0), F(2,0,1,0) >>, << F(1,1,1,0), F(0,1,1,0) >>, << F(127,0,0,0) >> >>
\* ---- seeded random PRT values that satisfy the cross-field rules: every byte of palettes, layers, unknown containers arbitrary;
\*      frames with every combination of the two optional-data flags, 0..5 layers (a few with 127), optional bytes non-zero
RS(r) == Seed * 401 + r
RB(r, st, i) == Below(RS(r), st, i, 256)
RPal(r, k) == [i \in 1..256 |-> <<RB(r, 10 + k, i), RB(r, 20 + k, i), RB(r, 30 + k, i), RB(r, 40 + k, i)>>]
RImg(r, i, np) == LET w == Below(RS(r), 50, i, 70) IN [scan |-> RoundUp4(w), off |-> Below(RS(r), 51, i, 60000), h |-> Below(RS(r), 52, i, 50), w |-> w,
                                                        type |-> Below(RS(r), 53, i, 256), pal |-> Below(RS(r), 54, i, np)]
RFrame(r, a, f) == LET n == IF Below(RS(r), 60 + a, f, 9) = 0 THEN 127 ELSE Below(RS(r), 61 + a, f, 6)  o1 == Below(RS(r), 62 + a, f, 2)  o2 == Below(RS(r), 63 + a, f, 2) IN
  [n1 |-> n, o1 |-> o1, n2 |-> Below(RS(r), 64 + a, f, 128), o2 |-> o2, opt |-> <<1 + (RB(r, 65, f) % 255), 1 + (RB(r, 66, f) % 255), 1 + (RB(r, 67, f) % 255), 1 + (RB(r, 68, f) % 255)>>,
   layers |-> [k \in 1..n |-> [j \in 1..8 |-> RB(r, 70 + a, f * 131 + k * 8 + j)]]]
RAnim(r, a) == [u1 |-> [j \in 1..4 |-> RB(r, 80, a * 4 + j)], rect |-> [j \in 1..16 |-> RB(r, 81, a * 16 + j)], disp |-> [j \in 1..8 |-> RB(r, 82, a * 8 + j)],
                u2 |-> [j \in 1..4 |-> RB(r, 83, a * 4 + j)], frames |-> [f \in 1..Below(RS(r), 84, a, 4) |-> RFrame(r, a, f)],
                unk |-> [k \in 1..Below(RS(r), 85, a, 3) |-> [j \in 1..16 |-> RB(r, 86, a * 50 + k * 16 + j)]]]
RValue(r) == LET np == Below(RS(r), 1, 0, 3) IN
  [palettes |-> [k \in 1..np |-> RPal(r, k)], images |-> IF np = 0 THEN <<>> ELSE [i \in 1..Below(RS(r), 2, 0, 5) |-> RImg(r, i, np)],
   anims |-> [a \in 1..Below(RS(r), 3, 0, 4) |-> RAnim(r, a)], unknownCount |-> Below(RS(r), 4, 0, 60000)]
\* ---- one TLC state per case; the cross-field rules and the encode/decode laws are INVARIANTs over the state's value --------------------
Init == \/ fam = "rt" /\ par \in {<<np, ni, fs, na, nunk>> : np \in 0..2, ni \in 0..2, fs \in 1..Len(FrameSets), na \in 0..2, nunk \in 0..2} /\ (par[1] > 0 \/ par[2] = 0)
        \/ fam = "rand" /\ par \in {<<r>> : r \in 1..NRand}
        \/ fam = "bad-scan" /\ par = <<>>
        \/ fam = "scan" /\ par \in {<<w, sc>> : w \in 0..13, sc \in 0..20} \cup {<<w, sc>> : w \in {32, 33, 252, 255, 256}, sc \in {28, 32, 36, 40, 252, 256, 260}}     \* the whole (width, scan-line) relation on a grid
        \/ fam = "bad-pal" /\ par \in {<<np, ix>> : np \in 0..2, ix \in {0, 1, 2, 3, 255, 256, 32767, 32768, 65534, 65535}} /\ par[2] >= par[1]       \* <<palettes, palette index of the image>>
        \* header totals that disagree with the contents: <<animations, frame total delta, layer total delta>>
        \/ fam = "bad-totals" /\ par \in {<<na, df, dl>> : na \in 0..2, df \in {0, 1, 2, 6}, dl \in {0, 1, 2, 6}} /\ (par[2] # 1 \/ par[3] # 1)       \* delta = value - 1
        \/ fam = "bad-layers" /\ par \in {<<n, extra>> : n \in {0, 1, 2, 126, 127}, extra \in {1, 2, 128, 256, 512}}
Next == UNCHANGED vars
Spec == Init /\ [][Next]_vars
Value == CASE fam = "rt" -> LET np == par[1]  ni == par[2]  fs == par[3]  na == par[4]  nunk == par[5] IN
                            V(np, [i \in 1..ni |-> Img(i * 3, TRUE, (i - 1) % np)], [a \in 1..na |-> Anim(FrameSets[((fs + a) % Len(FrameSets)) + 1], (nunk + a) % 3)])
           [] fam = "rand" -> RValue(par[1])
           [] fam = "bad-scan" -> V(1, << Img(5, FALSE, 0) >>, <<>>)
           [] fam = "scan" -> V(1, << [Img(par[1], TRUE, 0) EXCEPT !.scan = par[2]] >>, <<>>)
           [] fam = "bad-pal" -> V(par[1], << Img(5, TRUE, par[2]) >>, <<>>)
           [] fam = "bad-totals" -> V(1, << Img(8, TRUE, 0) >>, [a \in 1..par[1] |-> Anim(FrameSets[a + 2], a - 1)])
           [] OTHER -> V(0, <<>>, << Anim(<< F(par[1], 0, 0, par[2]) >> , 0) >>)
\* the good families satisfy the cross-field rules, the bad ones violate them (so that the writer's refusal is really exercised)
RulesAsIntended == RulesHold(Value) <=> (fam \in {"rt", "rand", "bad-totals"} \/ (fam = "scan" /\ par[2] = RoundUp4(par[1])))
\* the header totals equal the contents, and the encoding has the length the layout description implies
TotalsMatch == LET e == Encode(Value) IN Len(e) >= 8 + 1048 * Len(Value.palettes) + 4 + 20 * Len(Value.images) + 16
EncodingDeterminedByValue == Encode(Value) = EncodeWith(Value, PaletteHeaderCanon)
NonCanonicalHeaderSameLength == Len(EncodeWith(Value, PaletteHeaderWith(6, 9, 1022))) = Len(Encode(Value))
Export == CASE fam = "rt" -> Emit(<<"rt", par>>, << RT(Value, PaletteHeaderCanon), RT(Value, PaletteHeaderWith(6, 9, 1022)), WriteCase(Value) >>)
            [] fam = "rand" -> Emit(<<"rand", Seed, par>>, << RT(Value, PaletteHeaderCanon), WriteCase(Value) >>)
            [] fam = "bad-totals" -> LET ft1 == FrameTotal(Value) + par[2]  lt1 == LayerTotal(Value) + par[3]  ft == ft1 - 1  lt == lt1 - 1 IN
                 (ft1 >= 1 /\ lt1 >= 1) => Emit(<<fam, par>>, << [op |-> "prt_read", input |-> EncodeTotals(Value, ft, lt), expect |-> "refuse"], ReadCase(Value) >>)
            [] fam \in {"scan", "bad-scan", "bad-pal"} -> Emit(<<fam, par>>, << WriteCase(Value), ReadCase(Value) >>)
            [] OTHER -> Emit(<<fam, par>>, << WriteCase(Value) >>)
====
