---- MODULE MC_ImageFault ----
(***************************************************************************************************)
(* Fault model for C11: indexed bitmaps, tilesets in both formats and PRT files; every proper        *)
(* prefix, every header / count / length field replaced by boundary values, and coordinated           *)
(* multi-field corruptions that keep the loaders' size cross-checks satisfied (among them the          *)
(* witnesses of the cross-checks modulo 2^64 / 2^32).  The contract is loose: loading fails with an    *)
(* ordinary error, or returns an object on which every follow-up operation (validate, save in every    *)
(* format, flip, channel swap, sprite extraction by every index 0..count+1 against pixel files of       *)
(* several lengths) is itself an ordinary success or error; proper prefixes are refused.               *)
(***************************************************************************************************)
EXTENDS Tileset, Prt, Mutate
CONSTANTS Seed, NRand
VARIABLES done
SetBytes(img, off, bs) == [i \in 1..Len(img) |-> IF i > off /\ i <= off + Len(bs) THEN bs[i - off] ELSE img[i]]
B(a, b, c, d) == <<a, b, c, d>>
Neg(n) == LE32s(-n)
Common32 == { LE32(0), LE32(1), LE32(2), B(255,255,255,127), B(0,0,0,128), B(255,255,255,255), B(254,255,255,255), B(0,0,1,0) }
EmitS(id, kind, fault, img, must, extra, slow) ==
  PrintT("S|" \o ToJson([id |-> id, steps |-> << [op |-> "robust_image", kind |-> kind, fault |-> fault, image |-> img, must |-> must, pixelFiles |-> extra, slow |-> slow] >>]))
Emit(id, kind, fault, img, must, extra) == EmitS(id, kind, fault, img, must, extra, FALSE)
\* "slow": a zero-width image with a height near 2^31 is accepted and every row loop over it runs 2^31 (empty) iterations - it
\* terminates, but only after minutes in a sanitizer build; such vectors get a long watchdog and run in the thorough tier only
\* ---- bitmaps -----------------------------------------------------------------------------------------------------
Row(w, bc, seed) == [i \in 1..Pitch(w, bc) |-> ((seed * 37 + i * 11) % 255) + 1]
Bm(w, h, bc, np) == [w |-> w, h |-> h, bc |-> bc, palette |-> [i \in 1..np |-> <<i % 256, 2, 3, 0>>], rows |-> [r \in 1..Abs(h) |-> Row(w, bc, r)]]
BmpFields == { <<"bmp.fileSize", 2, 4>>, <<"bmp.pixelOffset", 10, 4>>, <<"bmp.headerSize", 14, 4>>, <<"bmp.width", 18, 4>>, <<"bmp.height", 22, 4>>,
               <<"bmp.planes", 26, 2>>, <<"bmp.bitCount", 28, 2>>, <<"bmp.compression", 30, 4>>, <<"bmp.imageSize", 34, 4>>,
               <<"bmp.usedColors", 46, 4>>, <<"bmp.importantColors", 50, 4>> }
BmpValues(f, b) ==
  IF f[3] = 2 THEN { LE16(0), LE16(1), LE16(2), LE16(3), LE16(4), LE16(8), LE16(16), LE16(24), LE16(32), LE16(65535) }
  ELSE Common32 \cup (CASE f[1] = "bmp.width" -> { Neg(1), Neg(7), Neg(b.w), LE32(b.w + 1), LE32(b.w + 32), B(0,0,0,32), B(1,0,0,32), B(249,255,255,255) }
                        [] f[1] = "bmp.height" -> { Neg(1), Neg(2), Neg(Abs(b.h) + 1), LE32(Abs(b.h) + 1), B(0,0,0,64) }
                        [] f[1] \in {"bmp.usedColors", "bmp.importantColors"} -> { LE32(MaxPalette(b.bc) - 1), LE32(MaxPalette(b.bc)), LE32(MaxPalette(b.bc) + 1), LE32(257) }
                        [] f[1] = "bmp.headerSize" -> { LE32(12), LE32(39), LE32(40), LE32(41), LE32(108), LE32(124) }
                        [] OTHER -> { LE32(53), LE32(54), LE32(55), LE32(62), LE32(1078) })
\* coordinated: geometry whose pitch x |height| equals the pixel byte count only modulo 2^64 (width < 0), with the file size adjusted
BmpWitness(bc, w, h, pixelBytes, np) ==
  LET off == 14 + 40 + 4 * np IN
  FileHeader(off + pixelBytes, off) \o InfoHeader(w, h, bc, 0) \o Flatten([i \in 1..np |-> <<i % 256, 2, 3, 0>>]) \o [i \in 1..pixelBytes |-> 170]
\* ---- custom tilesets ------------------------------------------------------------------------------------------------
TsPic(h) == [w |-> 32, h |-> -h, bc |-> 8, palette |-> [i \in 1..256 |-> <<(i - 1) % 256, 255 - ((i - 1) % 256), 7, 0>>], rows |-> [r \in 1..h |-> [i \in 1..32 |-> (r + i) % 256]]]
TsFields == { <<"ts.pbmpLen", 4>>, <<"ts.headLen", 12>>, <<"ts.tagCount", 16>>, <<"ts.width", 20>>, <<"ts.height", 24>>, <<"ts.bitDepth", 28>>, <<"ts.flags", 32>>,
              <<"ts.ppalLen", 40>>, <<"ts.ppalHeadLen", 48>>, <<"ts.ppalTagCount", 52>>, <<"ts.paletteLen", 60>>, <<"ts.pixelLen", 1092>> }
TsValues(f, h) == Common32 \cup (CASE f[1] = "ts.height" -> { LE32(32), LE32(33), LE32(64), LE32(h + 32), Neg(32), Neg(64), B(0,0,0,128), B(32,0,0,128), B(0,0,0,8), B(224,255,255,127) }
                                   [] f[1] = "ts.bitDepth" -> { LE32(4), LE32(8), LE32(16), LE32(24), B(8,0,1,0), B(1,0,1,0) }
                                   [] f[1] = "ts.width" -> { LE32(31), LE32(32), LE32(33), B(32,0,1,0) }
                                   [] f[1] = "ts.pixelLen" -> { LE32(32 * h - 1), LE32(32 * h + 1), LE32(32 * h + 1024), B(0,252,255,255) }
                                   [] OTHER -> { LE32(4), LE32(20), LE32(1024), LE32(1048), LE32(1047), LE32(1049) })
\* coordinated: a height h' with the pixel section length 32 * h' (mod 2^32) so that the pixel header check passes
TsCoord(img, hBytes, lenBytes) == SetBytes(SetBytes(img, 24, hBytes), 1092, lenBytes)
\* ---- PRT ------------------------------------------------------------------------------------------------------------------
\* parts view: a sequence of [n, b (bytes), f (is a 32-bit field)]
P(name, bytes) == [n |-> name, b |-> bytes, f |-> FALSE]
F(name, v) == [n |-> name, b |-> LE32(v), f |-> TRUE]
Pal1 == [i \in 1..256 |-> <<i % 256, (2 * i) % 256, 9, 0>>]
ImgParts(im) == << F("img.scan", im.scan), F("img.offset", im.off), F("img.height", im.h), F("img.width", im.w), P("img.type", LE16(im.type)), P("img.pal", LE16(im.pal)) >>
Lay(k) == <<k % 256, 0, 7, k % 256, 1, 0, 255, 255>>
PrtParts(imgs, nlayers) ==
  << P("cpal", TagCPAL), F("paletteCount", 1), P("ppal", TagPPAL), F("pal.overallLen", 1048), P("head", TagHead), F("pal.headLen", 4), F("pal.tagCount", 1),
     P("data", TagDat), F("pal.dataLen", 1024), P("palette", PaletteBytes(Pal1)), F("imageCount", Len(imgs)) >>
  \o Flatten([i \in 1..Len(imgs) |-> ImgParts(imgs[i])])
  \o << F("animCount", 1), F("frameTotal", 1), F("layerTotal", nlayers), F("unknownTotal", 3),
        P("anim.head", <<1,2,3,4>> \o [i \in 1..16 |-> i] \o [i \in 1..8 |-> 100 + i] \o <<60,0,0,0>>), F("anim.frameCount", 1),
        P("frame.meta", << nlayers + 128, 5 >>), P("frame.opt", <<11, 12>>), P("frame.layers", Flatten([k \in 1..nlayers |-> Lay(k)])),
        F("anim.unknownCount", 1), P("anim.unknown", [i \in 1..16 |-> 200 + i]) >>
PBytes(parts) == Flatten([i \in 1..Len(parts) |-> parts[i].b])
SetPart(parts, i, v) == [parts EXCEPT ![i].b = v]
IndexOf(parts, name, k) == CHOOSE i \in 1..Len(parts) : parts[i].n = name /\ Cardinality({j \in 1..i : parts[j].n = name}) = k
BaseImgs == << [scan |-> 8, off |-> 0, h |-> 3, w |-> 5, type |-> 1, pal |-> 0], [scan |-> 4, off |-> 24, h |-> 2, w |-> 3, type |-> 5, pal |-> 0],
              [scan |-> 40, off |-> 32, h |-> 2, w |-> 40, type |-> 4, pal |-> 0] >>       \* ... and a shadow (1-bit) image wide enough for its 1-bit pitch to differ from its scan-line width
PrtValues(name) == Common32 \cup (CASE name \in {"img.scan", "img.width"} -> { LE32(3), LE32(4), LE32(5), LE32(8), B(253,255,255,255), B(252,255,255,255) }
                                    [] name = "img.height" -> { LE32(3), LE32(4), B(0,0,0,64) }
                                    [] name = "img.offset" -> { LE32(24), LE32(100), LE32(2000), B(0,0,0,64) }
                                    [] name \in {"pal.overallLen", "pal.headLen", "pal.dataLen"} -> { LE32(4), LE32(1024), LE32(1023), LE32(1025), LE32(1048), LE32(1052) }
                                    [] OTHER -> { LE32(3), LE32(4), LE32(127), LE32(128), B(0,0,0,16) })
\* coordinated: (width, scan) pairs that satisfy scan = roundup4(width) modulo 2^32, with a height
WidthScan == { <<LE32(0), LE32(0)>>, <<LE32(1), LE32(4)>>, <<B(255,255,255,127), B(0,0,0,128)>>, <<B(0,0,0,128), B(0,0,0,128)>>,
               <<B(253,255,255,255), LE32(0)>>, <<B(255,255,255,255), LE32(0)>>, <<B(252,255,255,255), B(252,255,255,255)>> }
Heights == { LE32(0), LE32(1), LE32(3), B(255,255,255,127), B(0,0,0,128), B(255,255,255,255) }
PixelFiles == <<0, 100, 2000>>
Init == done = FALSE
Next == /\ ~done /\ done' = TRUE
        \* bitmaps
        /\ \A bi \in 1..3 :
             LET b == IF bi = 1 THEN Bm(5, 2, 8, 256) ELSE IF bi = 2 THEN Bm(9, -3, 1, 2) ELSE Bm(3, 1, 4, 16)
                 img == ImageWith(b, 0) IN
             /\ Emit(<<"bmp-base", bi>>, "bmp", "none", img, "accept", <<>>)
             /\ \A k \in 0..(Len(img) - 1) : Emit(<<"bmp-prefix", bi, k>>, "bmp", "prefix", SubSeq(img, 1, k), "refuse", <<>>)
             /\ \A f \in BmpFields : \A v \in BmpValues(f, b) : Emit(<<"bmp-field", bi, f[1], v>>, "bmp", f[1], SetBytes(img, f[2], v), "any", <<>>)
        \* bitmaps and tilesets without pixel rows: the file ends with its palette
        /\ \A bi \in 1..3 :
             LET img == IF bi = 1 THEN ImageWith(Bm(0, 3, 8, 256), 0) ELSE IF bi = 2 THEN ImageWith(Bm(4, 0, 1, 2), 0) ELSE EncodeCustom(TsPic(0))
                 kind == IF bi = 3 THEN "tileset" ELSE "bmp" IN
             /\ Emit(<<"norows-base", bi>>, kind, "none", img, "accept", <<>>)
             /\ \A k \in {x \in 0..(Len(img) - 1) : x < 60 \/ x > Len(img) - 40} : Emit(<<"norows-prefix", bi, k>>, kind, "prefix", SubSeq(img, 1, k), "refuse", <<>>)
        /\ \A wt \in { <<1, -7, -2, 0, 2>>, <<1, -7, 2, 0, 2>>, <<8, -4, 1, 0, 256>>, <<8, -1, -1, 0, 256>>, <<4, -8, 3, 0, 16>>, <<1, -39, 1, 0, 2>>, <<8, -3, 1, 0, 0>>,
                     <<8, 0, 5, 0, 256>>, <<8, 5, 0, 0, 256>>, <<1, 0, 0, 0, 2>> } :
             Emit(<<"bmp-witness", wt>>, "bmp", "bmp.geometry-witness", BmpWitness(wt[1], wt[2], wt[3], wt[4], wt[5]), "any", <<>>)
        \* ... and only modulo 2^32: pitch x |height| is 2^32 (or 2^32 + one row) while the file holds 0 (or one row of) pixel bytes
        /\ \A wt \in { <<8, 65536, 65536, 0, 256>>, <<8, 65536, -65536, 0, 256>>, <<8, 32768, 131072, 0, 256>>, <<4, 131072, 65536, 0, 16>>, <<1, 2147483647, 16, 0, 2>>,
                     <<1, 2147483647, -16, 0, 2>>, <<8, 4, 1073741824, 0, 256>>, <<8, 4, 1073741825, 4, 256>>, <<8, 32, 134217760, 1024, 256>>, <<1, 32, 1073741824, 0, 2>> } :
             Emit(<<"bmp-witness32", wt>>, "bmp", "bmp.geometry-witness32", BmpWitness(wt[1], wt[2], wt[3], wt[4], wt[5]), "any", <<>>)
        /\ Emit(<<"tsbmp-witness32">>, "tileset", "bmp.geometry-witness32", BmpWitness(8, 32, 134217760, 1024, 256), "any", <<>>)
        /\ \A hv \in { B(0,0,0,128), B(1,0,0,128), B(255,255,255,255) } : \A bc \in {1, 8} :
             EmitS(<<"bmp-height-min", hv, bc>>, "bmp", "bmp.geometry-witness",
                   SetBytes(BmpWitness(bc, 0, 0, 0, MaxPalette(bc)), 22, hv), "any", <<>>, hv = B(1,0,0,128))
        \* tilesets: custom format, and the standard-bitmap branch of the detecting loader
        /\ \A h \in {32, 64} :
             LET pic == TsPic(h)  img == EncodeCustom(pic) IN
             /\ Emit(<<"ts-base", h>>, "tileset", "none", img, "accept", <<>>)
             /\ \A k \in (0..70) \cup {1087, 1088, 1091, 1095, 1096, 1097, Len(img) - 33, Len(img) - 1} : Emit(<<"ts-prefix", h, k>>, "tileset", "prefix", SubSeq(img, 1, k), "refuse", <<>>)
             /\ \A f \in TsFields : \A v \in TsValues(f, h) : Emit(<<"ts-field", h, f[1], v>>, "tileset", f[1], SetBytes(img, f[2], v), "any", <<>>)
             /\ \A c \in { <<B(0,0,0,128), LE32(0)>>, <<B(224,255,255,255), B(0,252,255,255)>>, <<B(0,0,0,8), LE32(0)>>, <<B(32,0,0,128), LE32(1024)>>,
                           <<LE32(0), LE32(0)>>, <<B(0,0,0,64), LE32(0)>> } :
                  Emit(<<"ts-coord", h, c>>, "tileset", "ts.height+pixelLen", TsCoord(img, c[1], c[2]), "any", <<>>)
        \* a valid tileset (or bitmap) stored as a standard bitmap that declares k < 256 used colours: loads with a partial palette, every follow-up is safe
        /\ \A k \in {1, 2, 100, 255} :
             /\ Emit(<<"tsbmp-partial", k>>, "tileset", "bmp.partial-palette", ImageWith([TsPic(32) EXCEPT !.palette = SubSeq(@, 1, k)], k), "accept", <<>>)
             /\ Emit(<<"bmp-partial", k>>, "bmp", "bmp.partial-palette", ImageWith(Bm(5, 2, 8, k), k), "accept", <<>>)
        /\ LET std == Encode(TsPic(32)) IN
             /\ Emit(<<"tsbmp-base">>, "tileset", "none", std, "accept", <<>>)
             /\ \A k \in {0, 1, 2, 3, 4, 13, 14, 53, 54, 1077, 1078, 1079, Len(std) - 1} : Emit(<<"tsbmp-prefix", k>>, "tileset", "prefix", SubSeq(std, 1, k), "refuse", <<>>)
             /\ \A f \in {g \in BmpFields : g[1] \in {"bmp.width", "bmp.height", "bmp.bitCount"}} : \A v \in BmpValues(f, TsPic(32)) :
                  Emit(<<"tsbmp-field", f[1], v>>, "tileset", f[1], SetBytes(std, f[2], v), "any", <<>>)
        \* custom tilesets whose height and pixel length agree only modulo 2^32 (32 x height wraps), with exactly the declared pixel bytes present
        /\ \A wt \in { <<B(224,255,255,255), B(0,252,255,255), 1024>>, <<B(0,0,0,8), LE32(0), 0>>, <<B(32,0,0,8), LE32(1024), 1024>>, <<B(0,0,0,128), LE32(0), 0>>,
                      <<B(224,255,255,127), B(0,252,255,255), 1024>> } :
             LET img == SubSeq(EncodeCustom(TsPic(32)), 1, 1096 + wt[3]) IN
             Emit(<<"ts-witness32", wt>>, "tileset", "ts.geometry-witness32", SetBytes(SetBytes(img, 24, wt[1]), 1092, wt[2]), "any", <<>>)
        \* PRT without animations (palettes and images only; nothing at all): the file ends with the four words of the animation header
        /\ \A nb \in 1..2 :
             LET full == PrtParts(IF nb = 1 THEN BaseImgs ELSE <<>>, 2)
                 cutAt == IndexOf(full, "animCount", 1)
                 head == IF nb = 1 THEN SubSeq(full, 1, cutAt - 1) ELSE << P("cpal", TagCPAL), F("paletteCount", 0), F("imageCount", 0) >>
                 parts == head \o << F("animCount", 0), F("frameTotal", 0), F("layerTotal", 0), F("unknownTotal", 0) >>
                 img == PBytes(parts) IN
             /\ Emit(<<"prt0-base", nb>>, "prt", "none", img, "accept", PixelFiles)
             /\ \A k \in {x \in ((Len(img) - 24)..(Len(img) - 1)) : x >= 0} : Emit(<<"prt0-prefix", nb, k>>, "prt", "prefix", SubSeq(img, 1, k), "refuse", <<>>)
        \* PRT
        /\ LET parts == PrtParts(BaseImgs, 2)  img == PBytes(parts) IN
             /\ Emit(<<"prt-base">>, "prt", "none", img, "accept", PixelFiles)
             /\ \A k \in (0..40) \cup {1063, 1064, 1067, 1068} \cup ((Len(img) - 140)..(Len(img) - 1)) : Emit(<<"prt-prefix", k>>, "prt", "prefix", SubSeq(img, 1, k), "refuse", <<>>)
             /\ \A i \in 1..Len(parts) : parts[i].f => \A v \in PrtValues(parts[i].n) :
                  Emit(<<"prt-field", parts[i].n, i, v>>, "prt", parts[i].n, PBytes(SetPart(parts, i, v)), "any", PixelFiles)
             /\ \A ws \in WidthScan : \A hv \in Heights : \A ty \in {1, 5} :
                  LET wi == IndexOf(parts, "img.width", 1)  si == IndexOf(parts, "img.scan", 1)  hi == IndexOf(parts, "img.height", 1)  ti == IndexOf(parts, "img.type", 1) IN
                  EmitS(<<"prt-geometry", ws, hv, ty>>, "prt", "img.width+scan+height",
                        PBytes(SetPart(SetPart(SetPart(SetPart(parts, wi, ws[1]), si, ws[2]), hi, hv), ti, LE16(ty))), "any", PixelFiles,
                        ws[2] = LE32(0) /\ hv = B(255,255,255,127))
             \* coordinated: the palette data section announces K more bytes, an outer length is adjusted so that the header's own
             \* consistency rule (overall = 8 + (head + 4) + 4 + (data + 4)) still holds, and the K bytes are really there
             /\ \A K \in {4, 64, 3000} :
                  LET di == IndexOf(parts, "pal.dataLen", 1)  oi == IndexOf(parts, "pal.overallLen", 1)  pi == IndexOf(parts, "palette", 1) IN
                  Emit(<<"prt-palette-grown", K>>, "prt", "pal.dataLen+overallLen",
                       PBytes(SetPart(SetPart(SetPart(parts, di, LE32(1024 + K)), oi, LE32(1048 + K)), pi, parts[pi].b \o [i \in 1..K |-> 170])), "any", PixelFiles)
             /\ \A K \in {1, 4} :
                  LET di == IndexOf(parts, "pal.dataLen", 1)  hi == IndexOf(parts, "pal.headLen", 1)  pi == IndexOf(parts, "palette", 1) IN
                  Emit(<<"prt-palette-head-shrunk", K>>, "prt", "pal.dataLen+headLen",
                       PBytes(SetPart(SetPart(SetPart(parts, di, LE32(1024 + K)), hi, LE32(4 - K)), pi, parts[pi].b \o [i \in 1..K |-> 170])), "any", PixelFiles)
             /\ \A pv \in {0, 1, 2, 255, 65535} : Emit(<<"prt-palindex", pv>>, "prt", "img.pal", PBytes(SetPart(parts, IndexOf(parts, "img.pal", 2), LE16(pv))), "any", PixelFiles)
             /\ \A mb \in {0, 1, 2, 3, 127, 128, 129, 130, 255} : Emit(<<"prt-framemeta", mb>>, "prt", "frame.meta", PBytes(SetPart(parts, IndexOf(parts, "frame.meta", 1), <<mb, 5>>)), "any", PixelFiles)
        /\ \A r \in 1..NRand :
             /\ Emit(<<"bmp-random", Seed, r>>, "bmp", "random-bytes", Mutated(ImageWith(IF r % 2 = 0 THEN Bm(5, 2, 8, 256) ELSE Bm(9, -3, 1, 2), 0), Seed * 617 + r), "any", <<>>)
             /\ Emit(<<"ts-random", Seed, r>>, "tileset", "random-bytes",
                     LET img == EncodeCustom(TsPic(32))  hdr == Mutated(SubSeq(img, 1, 64), Seed * 619 + r) IN hdr \o SubSeq(img, Len(hdr) + 1, Len(img)), "any", <<>>)
             /\ Emit(<<"prt-random", Seed, r>>, "prt", "random-bytes",
                     LET img == PBytes(PrtParts(BaseImgs, 2))  tail == Mutated(SubSeq(img, 1069, Len(img)), Seed * 631 + r) IN SubSeq(img, 1, 1068) \o tail, "any", PixelFiles)
Spec == Init /\ [][Next]_done
====
