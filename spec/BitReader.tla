---- MODULE BitReader ----
(***************************************************************************************************)
(* The MSB-first bit cursor under the LZH decoder (Archive::BitStreamReader) as a state machine.     *)
(* State: the bit index p.  ReadBit returns bit p (0 past the end) and advances by one unless the       *)
(* input is exhausted; Read8 returns the next eight bits as a byte - bits past the end read as 0 - and    *)
(* advances by eight unless it started at or past the end (an unaligned Read8 that starts before the       *)
(* end may step past it).  EndOfStream holds iff p is at or past the number of bits.                       *)
(* TLC exports the transition relation; the scenario interpreter replays every walk to the stated depth.    *)
(***************************************************************************************************)
EXTENDS Naturals, Sequences, TLC, Json
CONSTANTS Input,   \* the bytes
          Depth
VARIABLES p, hist
vars == <<p, hist>>
NBits == 8 * Len(Input)
Pow2(k) == CASE k = 0 -> 1 [] k = 1 -> 2 [] k = 2 -> 4 [] k = 3 -> 8 [] k = 4 -> 16 [] k = 5 -> 32 [] k = 6 -> 64 [] k = 7 -> 128
BitAt(q) == IF q >= NBits THEN 0 ELSE (Input[(q \div 8) + 1] \div Pow2(7 - (q % 8))) % 2
RECURSIVE Val(_, _)
Val(q, k) == IF k = 0 THEN 0 ELSE 2 * Val(q, k - 1) + BitAt(q + k - 1)
Init == p = 0 /\ hist = <<>>
ReadBit == /\ p' = IF p >= NBits THEN p ELSE p + 1
           /\ hist' = Append(hist, [op |-> "bit", out |-> BitAt(p), pos |-> p', eos |-> p' >= NBits])
Read8 == /\ p' = IF p >= NBits THEN p ELSE p + 8
         /\ hist' = Append(hist, [op |-> "byte", out |-> IF p >= NBits THEN 0 ELSE Val(p, 8), pos |-> p', eos |-> p' >= NBits])
Next == Len(hist) < Depth /\ (ReadBit \/ Read8)
Spec == Init /\ [][Next]_vars
\* model-level: the cursor never moves backwards and never runs more than seven bits past the end
Monotone == [][p' >= p]_vars
Bounded == p <= NBits + 7
Export == Len(hist) = Depth => PrintT("S|" \o ToJson([id |-> [i \in 1..Len(hist) |-> hist[i].op], steps |-> << [op |-> "bit_walk", input |-> Input, calls |-> hist] >>]))
B0 == <<>>
B1 == <<165>>
B2 == <<255, 1>>
B3 == <<128, 0, 90>>
====
