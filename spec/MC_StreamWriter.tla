---- MODULE MC_StreamWriter ----
EXTENDS StreamWriter
====
