---- MODULE MC_MapFault ----
(***************************************************************************************************)
(* Fault model for C07: maps and saved games as a sequence of named parts; every proper prefix,      *)
(* every 32-bit header / count / length field replaced by boundary values.  The contract is loose:    *)
(* reading fails with an ordinary error, or returns a map with tiles = width x height and a           *)
(* power-of-two width (checked on the implementation's answer); a prefix that cuts the consumed part   *)
(* must be refused.                                                                                   *)
(***************************************************************************************************)
EXTENDS MapFile, Mutate
CONSTANTS Seed, NRand
VARIABLES done
P(name, bytes) == [n |-> name, s |-> Lit(bytes), f |-> FALSE]
F(name, v) == [n |-> name, s |-> Lit(LE32(v)), f |-> TRUE]
SourceParts(s) == << F("src.nameLen", Len(s.name)), P("src.name", s.name) >> \o (IF Len(s.name) > 0 THEN << [n |-> "src.numTiles", s |-> Lit(s.n), f |-> TRUE] >> ELSE <<>>)
GroupParts(g) == << F("grp.w", g.w), F("grp.h", g.h), P("grp.idx", Flatten(g.idx)), F("grp.nameLen", Len(g.name)), P("grp.name", g.name) >>
PrefixParts(m, savedWord) ==
  << F("ver", m.ver), [n |-> "saved", s |-> Lit(savedWord), f |-> TRUE], F("lgWidth", m.lg), F("height", m.h), F("srcCount", Len(m.sources)),
     P("tiles", Flatten(m.tiles)), P("clip", m.clip) >>
  \o Flatten([i \in 1..Len(m.sources) |-> SourceParts(m.sources[i])])
  \o << P("marker", Marker), F("mapCount", Len(m.mappings)), P("mappings", Flatten(m.mappings)), F("terrainCount", Len(m.terrains)) >>
  \o [i \in 1..Len(m.terrains) |-> [n |-> "terrain", s |-> Blob(m.terrains[i], 0, 264), f |-> FALSE]]
MapParts(m, savedWord, unk) ==
  PrefixParts(m, savedWord)
  \o << F("ver2", m.ver), F("ver3", m.ver), F("groupCount", Len(m.groups)), [n |-> "unknown", s |-> Lit(unk), f |-> TRUE] >>
  \o Flatten([i \in 1..Len(m.groups) |-> GroupParts(m.groups[i])])
\* saved game: skipped header, map prefix, tag, unit block (as parts), tag
UnitParts(unitCount, nextFree, firstFree, sizeOfUnit, n1, n2) ==
  << F("u.unitCount", unitCount), F("u.lastUsed", 0), F("u.nextFree", nextFree), F("u.firstFree", firstFree), F("u.sizeOfUnit", sizeOfUnit),
     F("u.objCount1", n1), F("u.objCount2", n2),
     [n |-> "u.objects1", s |-> Zr(512 * n1), f |-> FALSE], [n |-> "u.objects2", s |-> Zr(4 * n2), f |-> FALSE],
     F("u.nextUnit", 0), F("u.prevUnit", 0), [n |-> "u.units", s |-> Zr(2047 * 120), f |-> FALSE] >>
  \o (IF firstFree # nextFree THEN << [n |-> "u.freeList", s |-> Zr(2048 * 4), f |-> FALSE] >> ELSE <<>>)
SaveParts(m, up) == << [n |-> "skip", s |-> Zr(SaveSkip), f |-> FALSE] >> \o PrefixParts(m, <<1, 0, 0, 0>>) \o << F("ver2", m.ver) >> \o up \o << F("ver3", m.ver) >>
Segs(parts) == [i \in 1..Len(parts) |-> parts[i].s]
RECURSIVE OffsetOf(_, _)
OffsetOf(parts, i) == IF i = 1 THEN 0 ELSE OffsetOf(parts, i - 1) + SegLen(parts[i - 1].s)
\* ---- boundary values, by field -------------------------------------------------------------------------------------------
B(a, b, c, d) == <<a, b, c, d>>
Common == { LE32(0), LE32(1), B(255,255,255,127), B(0,0,0,128), B(255,255,255,255), B(254,255,255,255) }
Values(name, m) ==
  CASE name = "lgWidth" -> { LE32(0), LE32(5), LE32(10), LE32(30), LE32(31), LE32(32), LE32(33), LE32(63), LE32(64), B(255,255,255,255), B(32,0,0,128) }
    [] name = "height" -> Common \cup { B(0,0,0,8), B(1,0,0,8), B(0,0,0,64), B(0,0,0,4), B(0,0,1,0), LE32(m.h + 1) }       \* 2^27, 2^27+1, 2^30, 2^26, 65536
    [] name \in {"ver", "ver2", "ver3"} -> { LE32(0), LE32(4111), LE32(4112), LE32(4113), B(255,255,255,255) }
    [] name \in {"src.nameLen", "grp.nameLen"} -> Common \cup { LE32(8), LE32(9), LE32(255) }
    [] name \in {"grp.w", "grp.h"} -> Common \cup { B(0,0,1,0), B(0,128,0,0), B(1,0,1,0) }                                  \* 65536, 32768, 65537
    [] name \in {"u.objCount1", "u.objCount2", "u.sizeOfUnit", "u.nextFree", "u.firstFree"} -> Common \cup { LE32(2), LE32(119), LE32(120), LE32(121), B(0,0,128,0) }
    [] OTHER -> Common \cup { LE32(2), LE32(3), B(0,0,0,16), B(86,85,85,21) }                                                 \* counts: 2^28, (2^32+2)/12
SetField(parts, i, v) == [parts EXCEPT ![i].s = Lit(v)]
\* ---- bases ------------------------------------------------------------------------------------------------------------------
TilePool == << <<0,0,0,0>>, <<255,255,255,255>>, <<21,0,0,16>>, <<31,224,255,239>> >>
Base(lg, h, withTerrain) ==
  [ver |-> 4113, saved |-> FALSE, lg |-> lg, h |-> h, tiles |-> [i \in 1..(h * Pow2(lg)) |-> TilePool[(i % 4) + 1]], clip |-> [i \in 1..16 |-> i],
   sources |-> << [name |-> <<119,101,108,108>>, n |-> <<7,0,0,0>>], [name |-> <<>>, n |-> <<0,0,0,0>>], [name |-> <<97,98,99,100,101,102,103,104>>, n |-> <<1,0,0,0>>] >>,
   mappings |-> << <<1,0,2,0,3,0,4,0>> >>, terrains |-> IF withTerrain THEN <<11>> ELSE <<>>,
   groups |-> << [w |-> 2, h |-> 1, idx |-> << <<1,0,0,0>>, <<2,0,0,0>> >>, name |-> <<103>>], [w |-> 0, h |-> 3, idx |-> <<>>, name |-> <<>>] >>]
Emit(id, kind, fault, segs, must) == PrintT("S|" \o ToJson([id |-> id, steps |-> << [op |-> "robust_map", kind |-> kind, fault |-> fault, segs |-> segs, must |-> must] >>]))
\* C06 on whatever the reader accepts among these images: when the fault leaves the layout of the file as it is (it hits a field that no later
\* byte's position depends on), the written bytes must equal the consumed bytes except the saved-game word (normalised to 0 / 1) and the
\* undocumented word of the tile-group header (regenerated); unkOff = 0 means "layout not known, no such demand"
NonStructural == {"ver", "ver2", "ver3", "saved", "unknown", "src.numTiles"}
IndexOfPart(parts, name) == CHOOSE i \in 1..Len(parts) : parts[i].n = name
LastIndexOfPart(parts, name) == CHOOSE i \in 1..Len(parts) : parts[i].n = name /\ \A j \in (i + 1)..Len(parts) : parts[j].n # name
EmitMap(id, fault, parts, must, layoutKnown) ==
  PrintT("S|" \o ToJson([id |-> id, steps |-> << [op |-> "robust_map", kind |-> "map", fault |-> fault, segs |-> Segs(parts), must |-> must,
                                                   flagOff |-> OffsetOf(parts, IndexOfPart(parts, "saved")),
                                                   unkOff |-> IF layoutKnown THEN OffsetOf(parts, IndexOfPart(parts, "unknown")) ELSE 0] >>]))
\* sampled cut points of a long zero run [a, b): both ends and powers of two in between
Cuts(a, b) == {a, a + 1, b - 1} \cup {a + Pow2(k) : k \in {x \in 0..17 : a + Pow2(x) < b}}
Init == done = FALSE
Next == /\ ~done /\ done' = TRUE
        /\ \A bi \in 1..6 :
             LET m == IF bi = 1 THEN Base(1, 2, FALSE) ELSE IF bi = 2 THEN Base(5, 1, TRUE) ELSE IF bi = 3 THEN Base(0, 0, FALSE)
                      ELSE IF bi = 4 THEN [Base(1, 2, FALSE) EXCEPT !.groups = <<>>]                       \* no tile groups: the file ends with the unknown word
                      ELSE IF bi = 5 THEN [Base(0, 1, FALSE) EXCEPT !.groups = <<>>, !.sources = <<>>, !.mappings = <<>>]    \* the smallest non-empty map
                      ELSE [Base(0, 1, FALSE) EXCEPT !.groups = << [w |-> 1, h |-> 1, idx |-> << <<1,0,0,0>> >>, name |-> <<82, 111, 0, 0, 107>>], [w |-> 1, h |-> 0, idx |-> <<>>, name |-> <<82, 0, 0>>] >>,
                                                    !.sources = << [name |-> <<119, 0, 108>>, n |-> <<7,0,0,0>>] >>]     \* names with NUL bytes inside and at the end: a name is its declared length
                 parts == MapParts(m, <<0,0,0,0>>, <<1,0,0,0>>)
                 total == SegsLen(Segs(parts)) IN
             /\ Assert(FlattenSegs(Segs(parts)) = FlattenSegs(EncodeWith(m, <<0,0,0,0>>, <<1,0,0,0>>, <<>>)), "the parts view is the MapFile encoding")
             /\ EmitMap(<<"base", bi>>, "none", parts, "accept", TRUE)
             /\ \A k \in 0..(total - 1) : Emit(<<"prefix", bi, k>>, "map", "prefix", TruncSegs(Segs(parts), k), "refuse")
             /\ \A i \in 1..Len(parts) : parts[i].f => \A v \in Values(parts[i].n, m) :
                  EmitMap(<<"field", bi, parts[i].n, OffsetOf(parts, i), v>>, parts[i].n, SetField(parts, i, v), "any", parts[i].n \in NonStructural)
        /\ \A ui \in 1..2 :
             LET m == Base(1, 2, ui = 2)
                 up == IF ui = 1 THEN UnitParts(3, 5, 5, 120, 1, 2) ELSE UnitParts(0, 5, 6, 120, 0, 3)
                 parts == SaveParts(m, up)
                 total == SegsLen(Segs(parts))
                 mapStart == SaveSkip
                 unitsAt == OffsetOf(parts, CHOOSE i \in 1..Len(parts) : parts[i].n = "u.unitCount") IN
             /\ Emit(<<"save-base", ui>>, "save", "none", Segs(parts), "accept")
             /\ \A k \in Cuts(0, mapStart) \cup (mapStart..(unitsAt + 40)) \cup Cuts(unitsAt + 40, total) :
                  k < total => Emit(<<"save-prefix", ui, k>>, "save", "prefix", TruncSegs(Segs(parts), k), "refuse")
             /\ \A i \in 1..Len(parts) : parts[i].f => \A v \in Values(parts[i].n, m) :
                  Emit(<<"save-field", ui, parts[i].n, v>>, "save", parts[i].n, Segs(SetField(parts, i, v)), "any")
        \* coordinated: a log-width and a height whose product is 2^32 + (a small multiple of the width), together with exactly the
        \* tile bytes of the product modulo 2^32 and a well-formed tail - the reader must not return it as a map of the wrapped size
        /\ \A lg \in {16, 17, 18} : \A r \in {1, 2} : \A kind \in {"map", "save"} :
             LET m == Base(0, 0, FALSE)
                 base == IF kind = "map" THEN MapParts(m, <<0,0,0,0>>, <<1,0,0,0>>) ELSE SaveParts(m, UnitParts(0, 5, 5, 120, 0, 0))
                 li == CHOOSE i \in 1..Len(base) : base[i].n = "lgWidth"
                 hi == CHOOSE i \in 1..Len(base) : base[i].n = "height"
                 ti == CHOOSE i \in 1..Len(base) : base[i].n = "tiles"
                 wrapped == [base EXCEPT ![li].s = Lit(LE32(lg)), ![hi].s = Lit(LE32(Pow2(32 - lg) + r)), ![ti].s = Zr(4 * r * Pow2(lg))]
             IN Emit(<<"dimension-wrap", kind, lg, r>>, kind, "lgWidth+height+tiles", Segs(wrapped), "any")
        \* coordinated: a LAST tile group whose width x height is 2^32 or more - the reader sizes the index list with the 32-bit product, so
        \* with exactly that many indices present the file is accepted, and what is accepted must be written back (C06)
        /\ \A c \in 1..3 :
             LET g == IF c = 1 THEN [w |-> 0, h |-> 0, idx |-> <<>>, name |-> <<103, 104>>]                         \* 65536 x 65536 -> 0 indices
                      ELSE IF c = 2 THEN [w |-> 1, h |-> 2, idx |-> << <<1,0,0,0>>, <<2,0,0,0>> >>, name |-> <<>>]  \* (2^31 + 1) x 2 -> 2 indices
                      ELSE [w |-> 3, h |-> 1, idx |-> << <<1,0,0,0>>, <<2,0,0,0>>, <<0,0,0,0>> >>, name |-> <<103>>] \* control: 3 x 1, no wrap
                 m == [Base(1, 2, FALSE) EXCEPT !.groups = << Base(1, 2, FALSE).groups[1], g >>]
                 parts == MapParts(m, <<0,0,0,0>>, <<1,0,0,0>>)
                 wi == LastIndexOfPart(parts, "grp.w")
                 hi == LastIndexOfPart(parts, "grp.h")
                 wv == IF c = 1 THEN B(0,0,1,0) ELSE IF c = 2 THEN B(1,0,0,128) ELSE B(3,0,0,0)
                 hv == IF c = 1 THEN B(0,0,1,0) ELSE IF c = 2 THEN LE32(2) ELSE B(1,0,0,0)
             IN EmitMap(<<"group-area-wrap", c>>, "grp.w+grp.h", SetField(SetField(parts, wi, wv), hi, hv), "any", TRUE)
        /\ \A r \in 1..NRand :
             LET m == IF r % 2 = 0 THEN Base(1, 2, FALSE) ELSE [Base(0, 1, TRUE) EXCEPT !.groups = <<>>]
                 img == FlattenSegs(Segs(MapParts(m, <<0,0,0,0>>, <<1,0,0,0>>))) IN
             Emit(<<"random", Seed, r>>, "map", "random-bytes", << Lit(Mutated(img, Seed * 641 + r)) >>, "any")
Spec == Init /\ [][Next]_done
====
