---- MODULE Bytes ----
EXTENDS Naturals, Sequences
\* little-endian encodings of naturals below 2^31 (TLC integers); wider values go through Wide
LE16(v) == << v % 256, (v \div 256) % 256 >>
LE32(v) == << v % 256, (v \div 256) % 256, (v \div 65536) % 256, (v \div 16777216) % 256 >>
\* LE32 of (v + 2^31) for v < 2^31 : the VOL section header stores length in 31 bits and a flag in bit 31
LE32Top(v) == << v % 256, (v \div 256) % 256, (v \div 65536) % 256, 128 + ((v \div 16777216) % 128) >>
Zeros(n) == [i \in 1..n |-> 0]
Pad4(n) == (4 - (n % 4)) % 4
Up4(n) == n + Pad4(n)
\* concatenation of a sequence of sequences; divide and conquer keeps the recursion depth logarithmic
RECURSIVE Flatten(_)
Flatten(ss) == IF Len(ss) = 0 THEN <<>>
               ELSE IF Len(ss) = 1 THEN ss[1]
               ELSE LET h == Len(ss) \div 2 IN Flatten(SubSeq(ss, 1, h)) \o Flatten(SubSeq(ss, h + 1, Len(ss)))
\* segments
Lit(bs) == [k |-> "b", v |-> bs]
Zr(n) == [k |-> "z", n |-> n]
Blob(id, off, n) == [k |-> "blob", id |-> id, off |-> off, n |-> n]
====
