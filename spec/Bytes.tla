---- MODULE Bytes ----
EXTENDS Naturals, Sequences
\* little-endian encodings of naturals below 2^31 (TLC integers); wider values go through Wide
LE16(v) == << v % 256, (v \div 256) % 256 >>
LE32(v) == << v % 256, (v \div 256) % 256, (v \div 65536) % 256, (v \div 16777216) % 256 >>
\* LE32 of (v + 2^31) for v < 2^31 : the VOL section header stores length in 31 bits and a flag in bit 31
LE32Top(v) == << v % 256, (v \div 256) % 256, (v \div 65536) % 256, 128 + ((v \div 16777216) % 128) >>
Zeros(n) == [i \in 1..n |-> 0]
Pad4(n) == (4 - (n % 4)) % 4
Up4(n) == n + Pad4(n)
\* concatenation of a sequence of sequences; divide and conquer keeps the recursion depth logarithmic
RECURSIVE Flatten(_)
Flatten(ss) == IF Len(ss) = 0 THEN <<>>
               ELSE IF Len(ss) = 1 THEN ss[1]
               ELSE LET h == Len(ss) \div 2 IN Flatten(SubSeq(ss, 1, h)) \o Flatten(SubSeq(ss, h + 1, Len(ss)))
\* segments
Lit(bs) == [k |-> "b", v |-> bs]
Zr(n) == [k |-> "z", n |-> n]
Blob(id, off, n) == [k |-> "blob", id |-> id, off |-> off, n |-> n]
\* the byte function blobs stand for: every (id, position) is distinguishable; harness/common/scen.hpp expands blobs with the same function
BlobByte(id, j) == (id * 131 + j * 31 + (j \div 256) * 7 + 17) % 251
SegLen(s) == IF s.k = "b" THEN Len(s.v) ELSE s.n
SegBytes(s) == IF s.k = "b" THEN s.v ELSE IF s.k = "z" THEN Zeros(s.n) ELSE [j \in 1..s.n |-> BlobByte(s.id, s.off + j - 1)]
RECURSIVE SegsLen(_)
SegsLen(segs) == IF segs = <<>> THEN 0 ELSE SegLen(Head(segs)) + SegsLen(Tail(segs))
FlattenSegs(segs) == Flatten([i \in 1..Len(segs) |-> SegBytes(segs[i])])
\* the first k bytes of an image given as segments (a truncated file)
RECURSIVE TruncSegs(_, _)
TruncSegs(segs, k) ==
  IF k = 0 \/ segs = <<>> THEN <<>>
  ELSE LET s == Head(segs)  n == SegLen(s) IN
       IF n <= k THEN <<s>> \o TruncSegs(Tail(segs), k - n)
       ELSE << IF s.k = "b" THEN Lit(SubSeq(s.v, 1, k)) ELSE IF s.k = "z" THEN Zr(k) ELSE Blob(s.id, s.off, k) >>
====
