---- MODULE MC_XPaths ----
(* One TLC state per (directory part, file name): the expected result of every helper is exported and compared with the implementation. *)
EXTENDS XPaths, TLC, Json
VARIABLES d, n
vars == <<d, n>>
\* TS is a constant of the instance: the check generates the scenarios once per flavour and the harness skips the flavour it is not
Dirs == << <<>>, <<100,47>>, <<97,47,98,47>>, <<47,114,47>>, <<47>>, <<46,47>>, <<46,46,47,100,47>> >>           \* "" "d/" "a/b/" "/r/" "/" "./" "../d/"
FileNames == << <<110>>, <<110,46,120>>, <<110,46,120,46,121>>, <<46,104>>, <<110,46>>, <<78,46,84,120,116>>, <<46,104,46,120>>, <<110,95,49,46,118,111,108>> >>
\* "n" "n.x" "n.x.y" ".h" "n." "N.Txt" ".h.x" "n_1.vol"
Subs == << <<115>>, <<115,47,116>> >>                                  \* "s" "s/t"
Suffixes == << <<>>, <<95,49>>, <<46,122>> >>                         \* "" "_1" ".z"
NewNames == << <<109>>, <<109,46,113>> >>                              \* "m" "m.q"
Exts == << <<>>, <<46,113>>, <<113>>, <<46,84,88,84>>, <<116,120,116>>, <<46>> >>           \* "" ".q" "q" ".TXT" "txt" "."
Roots == << <<>>, <<47,114>>, <<47,114,47>>, <<119>> >>               \* "" "/r" "/r/" "w"
Init == d \in 1..Len(Dirs) /\ n \in 1..Len(FileNames)
Next == UNCHANGED vars
Spec == Init /\ [][Next]_vars
P == Dirs[d] \o FileNames[n]
\* laws of the model itself
SplitJoin == GetDirectory(P) \o GetFilename(P) = P
StemExt == StemOf(FilenameOf(P)) \o ExtOf(FilenameOf(P)) = FilenameOf(P)
ChangeThenMatch == \A i \in 1..Len(Exts) : (Exts[i] # <<>> /\ Exts[i] # <<Dot>>) => ExtensionMatches(ChangeFileExtension(P, Exts[i]), Exts[i])
ReplaceKeepsDirectory == \A i \in 1..Len(NewNames) : GetDirectory(ReplaceFilename(P, NewNames[i])) = GetDirectory(P) /\ GetFilename(ReplaceFilename(P, NewNames[i])) = NewNames[i]
Export == PrintT("S|" \o ToJson([id |-> <<d, n>>, steps |-> << [op |-> "xpaths", ts |-> TS, path |-> P,
   ext |-> GetFileExtension(P), filename |-> GetFilename(P), directory |-> GetDirectory(P), rooted |-> Rooted(P),
   replace |-> [i \in 1..Len(NewNames) |-> [arg |-> NewNames[i], v |-> ReplaceFilename(P, NewNames[i])]],
   appendName |-> [i \in 1..Len(Suffixes) |-> [arg |-> Suffixes[i], v |-> AppendToFilename(P, Suffixes[i])]],
   appendSub |-> [i \in 1..Len(Subs) |-> [arg |-> Subs[i], v |-> AppendSubDirectory(P, Subs[i])]],
   changeExt |-> [i \in 1..Len(Exts) |-> [arg |-> Exts[i], v |-> ChangeFileExtension(P, Exts[i])]],
   matches |-> [i \in 1..Len(Exts) |-> [arg |-> Exts[i], v |-> ExtensionMatches(P, Exts[i])]],
   absolute |-> [i \in 1..Len(Roots) |-> [arg |-> Roots[i], v |-> MakeAbsolute(P, Roots[i])]]] >>]))
====
