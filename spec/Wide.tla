---- MODULE Wide ----
(* Naturals beyond TLC's 31-bit integers, as little-endian sequences of 16-bit limbs (4 limbs = 64 bits). *)
EXTENDS Naturals, Sequences
B == 65536
NLimbs == 4
W(n) == << n % B, (n \div B) % B, 0, 0 >>                 \* from a TLC integer (< 2^31)
WMake(l0, l1, l2, l3) == << l0, l1, l2, l3 >>
Two31 == << 0, 32768, 0, 0 >>
Two32 == << 0, 0, 1, 0 >>
U32Max == << 65535, 65535, 0, 0 >>
U64Max == << 65535, 65535, 65535, 65535 >>
\* addition; carry out of the top limb is reported separately so "does not fit in 64 bits" is expressible
RECURSIVE AddFrom(_, _, _, _)
AddFrom(a, b, i, c) == IF i > NLimbs THEN << <<>>, c >>
                       ELSE LET s == a[i] + b[i] + c
                                r == AddFrom(a, b, i + 1, s \div B)
                            IN << <<s % B>> \o r[1], r[2] >>
WAdd(a, b) == AddFrom(a, b, 1, 0)[1]
WCarry(a, b) == AddFrom(a, b, 1, 0)[2]
RECURSIVE LtFrom(_, _, _)
LtFrom(a, b, i) == IF i = 0 THEN FALSE ELSE IF a[i] < b[i] THEN TRUE ELSE IF a[i] > b[i] THEN FALSE ELSE LtFrom(a, b, i - 1)
WLt(a, b) == LtFrom(a, b, NLimbs)
WLe(a, b) == a = b \/ WLt(a, b)
FitsU32(a) == a[3] = 0 /\ a[4] = 0
FitsU31(a) == FitsU32(a) /\ a[2] < 32768
\* round up to a multiple of 4 (no overflow for the values used)
WUp4(a) == LET r == a[1] % 4 IN IF r = 0 THEN a ELSE WAdd(a, W(4 - r))
LE32W(a) == << a[1] % 256, a[1] \div 256, a[2] % 256, a[2] \div 256 >>          \* requires FitsU32(a)
LE64W(a) == LE32W(a) \o << a[3] % 256, a[3] \div 256, a[4] % 256, a[4] \div 256 >>
====
