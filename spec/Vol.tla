--------------------------------- MODULE Vol ---------------------------------
(***************************************************************************************************)
(* The VOL archive format of Outpost 2, written from the format description, and the behaviour of  *)
(* VolFile::CreateArchive / VolFile on it.                                                         *)
(*                                                                                                 *)
(* Section header = 4-byte tag + 32-bit word: length in bits 0..30, four-byte-padding flag in 31.   *)
(*   "VOL " len            covers everything up to the first block                                  *)
(*   "volh" 0                                                                                       *)
(*   "vols" padded len     actual name-table length (u32), NUL-terminated names, zero pad to 4      *)
(*   "voli" len = 14 n     n entries (name offset u32, block offset u32, size u32, kind u16), pad   *)
(*   per member: "VBLK" size, payload, zero pad to 4                                                *)
(* Members are ordered by the case-insensitive "comes before" relation of module Names.             *)
(***************************************************************************************************)
EXTENDS Naturals, Sequences, FiniteSets, TLC, Json, Bytes, Names

TagVOL  == <<86, 79, 76, 32>>
TagVolh == <<118, 111, 108, 104>>
TagVols == <<118, 111, 108, 115>>
TagVoli == <<118, 111, 108, 105>>
TagVBLK == <<86, 66, 76, 75>>
Uncompressed == 256
LZH == 259

\* a member: [name : Seq(code), size : Nat, data : segments (length = size), kind]
RECURSIVE SumNames(_)
SumNames(ms) == IF ms = <<>> THEN 0 ELSE Len(Head(ms).name) + 1 + SumNames(Tail(ms))
NameTableLen(ms) == SumNames(ms)
PaddedNames(ms) == Up4(NameTableLen(ms) + 4)
IndexLen(ms) == 14 * Len(ms)
PaddedIndex(ms) == Up4(IndexLen(ms))
HeaderLen(ms) == PaddedNames(ms) + PaddedIndex(ms) + 24
FirstBlock(ms) == HeaderLen(ms) + 8
RECURSIVE BlockOff(_, _)
BlockOff(ms, i) == IF i = 1 THEN FirstBlock(ms) ELSE BlockOff(ms, i - 1) + 8 + Up4(ms[i - 1].size)
RECURSIVE NameOff(_, _)
NameOff(ms, i) == IF i = 1 THEN 0 ELSE NameOff(ms, i - 1) + Len(ms[i - 1].name) + 1
FileLen(ms) == IF ms = <<>> THEN FirstBlock(ms) ELSE BlockOff(ms, Len(ms)) + 8 + Up4(ms[Len(ms)].size)
Section(tag, len) == tag \o LE32Top(len)
NameBytes(ms) == Flatten([i \in 1..Len(ms) |-> ms[i].name \o <<0>>])
Entry(ms, i) == LE32(NameOff(ms, i)) \o LE32(BlockOff(ms, i)) \o LE32(ms[i].size) \o LE16(ms[i].kind)
Header(ms) ==
  Section(TagVOL, HeaderLen(ms)) \o Section(TagVolh, 0)
  \o Section(TagVols, PaddedNames(ms)) \o LE32(NameTableLen(ms)) \o NameBytes(ms)
  \o Zeros(PaddedNames(ms) - 4 - NameTableLen(ms))
  \o Section(TagVoli, IndexLen(ms)) \o Flatten([i \in 1..Len(ms) |-> Entry(ms, i)])
  \o Zeros(PaddedIndex(ms) - IndexLen(ms))
Blocks(ms) == Flatten([i \in 1..Len(ms) |->
                 << Lit(Section(TagVBLK, ms[i].size)) >> \o ms[i].data \o << Zr(Pad4(ms[i].size)) >>])
Layout(ms) == << Lit(Header(ms)) >> \o Blocks(ms)

RECURSIVE Insert(_, _)
Insert(m, ms) == IF ms = <<>> THEN <<m>>
                 ELSE IF Less(m.name, Head(ms).name) THEN <<m>> \o ms ELSE <<Head(ms)>> \o Insert(m, Tail(ms))
RECURSIVE SortCI(_)
SortCI(ms) == IF ms = <<>> THEN <<>> ELSE Insert(Head(ms), SortCI(Tail(ms)))
HasDup(ms) == \E i, j \in 1..Len(ms) : i # j /\ CIEqual(ms[i].name, ms[j].name)

\* ---- well-formedness under the description (checked on every enumerated layout) -----------------
RECURSIVE BinSearch(_, _, _, _)
BinSearch(ms, n, lo, hi) ==          \* index of name n in ms[lo..hi] by binary search with Less, 0 if absent
  IF lo > hi THEN 0
  ELSE LET mid == (lo + hi) \div 2 IN
       IF CIEqual(ms[mid].name, n) THEN mid
       ELSE IF Less(n, ms[mid].name) THEN BinSearch(ms, n, lo, mid - 1) ELSE BinSearch(ms, n, mid + 1, hi)
WellFormed(ms) ==
  /\ Len(Header(ms)) = FirstBlock(ms)                                     \* sections tile the header exactly
  /\ \A i \in 1..Len(ms) : BlockOff(ms, i) % 4 = 0                        \* blocks aligned
  /\ \A i \in 1..Len(ms) : SubSeq(NameBytes(ms), NameOff(ms, i) + 1, NameOff(ms, i) + Len(ms[i].name) + 1)
                             = ms[i].name \o <<0>>                        \* index entry names its member
  /\ \A i \in 1..(Len(ms) - 1) : BlockOff(ms, i + 1) = BlockOff(ms, i) + 8 + Up4(ms[i].size)   \* contiguous
  /\ \A i \in 1..Len(ms) : BinSearch(ms, ms[i].name, 1, Len(ms)) = i      \* binary search finds every member

\* ---- the independent encoder of the description (C02, reader direction) ---------------------------------------------
\* a stored member: [name, size (recorded in the index), kind, stored : Seq(byte) (what the block holds)]
\* extraSlots unused trailing index entries (name offset 0xFFFFFFFF), slack extra bytes (0xFF) inside the index section
RIndexLen(ms, extraSlots, slack) == 14 * (Len(ms) + extraSlots) + slack
RHeaderLen(ms, e, k) == PaddedNames(ms) + Up4(RIndexLen(ms, e, k)) + 24
RECURSIVE RBlockOff(_, _, _, _)
RBlockOff(ms, e, k, i) == IF i = 1 THEN RHeaderLen(ms, e, k) + 8 ELSE RBlockOff(ms, e, k, i - 1) + 8 + Up4(Len(ms[i - 1].stored))
REntry(ms, e, k, i) == LE32(NameOff(ms, i)) \o LE32(RBlockOff(ms, e, k, i)) \o LE32(ms[i].size) \o LE16(ms[i].kind)
UnusedEntry == <<255, 255, 255, 255>> \o LE32(0) \o LE32(0) \o LE16(0)
RefEncode(ms, e, k) ==
  Section(TagVOL, RHeaderLen(ms, e, k)) \o Section(TagVolh, 0)
  \o Section(TagVols, PaddedNames(ms)) \o LE32(NameTableLen(ms)) \o NameBytes(ms) \o Zeros(PaddedNames(ms) - 4 - NameTableLen(ms))
  \o Section(TagVoli, RIndexLen(ms, e, k)) \o Flatten([i \in 1..Len(ms) |-> REntry(ms, e, k, i)])
  \o Flatten([i \in 1..e |-> UnusedEntry]) \o [i \in 1..k |-> 255] \o Zeros(Up4(RIndexLen(ms, e, k)) - RIndexLen(ms, e, k))
  \o Flatten([i \in 1..Len(ms) |-> Section(TagVBLK, Len(ms[i].stored)) \o ms[i].stored \o Zeros(Pad4(Len(ms[i].stored)))])
===============================================================================
