---------------------------- MODULE Trace_PathLaws ----------------------------
(***************************************************************************************************)
(* C19, pipeline V.  The specification does not re-implement a file-system path library: the path    *)
(* laws are laws over the relation and the functions *observed* on the implementation               *)
(* (XFile::PathsAreEqual, Append, GetFilename, GetDirectory, ChangeFileExtension, ExtensionMatches)  *)
(* over a universe of strings.  The recorder logs                                                    *)
(*   {"e":"Universe","strs":[codes...]}       the universe U (1-based)                               *)
(*   {"e":"EqRow","i":k,"eq":[j...]}          the strings PathsAreEqual relates U[k] to                *)
(*   {"e":"DotSlash","i":k,"v":b}             PathsAreEqual("./" + U[k], U[k])                         *)
(*   {"e":"JoinRow","d":k,"r":[...]}          GetFilename(Append(U[k], U[j])) for every j; a refusal is [-1]   *)
(*   {"e":"Split","i":k,"eq":b,"threw":b}     PathsAreEqual(Append(GetDirectory(p), GetFilename(p)), p) *)
(*   {"e":"ExtRow","f":k,"ext":e,"v":[b...]}  ExtensionMatches(ChangeFileExtension(U[k], e), e') for     *)
(*                                            every case variant e' of e                                *)
(*   {"e":"Cmp3","s":[a,b,c],"less":3x3,"eq":3x3}  the comparator and case-blind equality on a triple    *)
(* Each action demands exactly the law instance the property states, on the domain it states.         *)
(***************************************************************************************************)
EXTENDS Integers, Sequences, FiniteSets, TLC, Json, IOUtils, Names
Log == ndJsonDeserialize(IOEnv.TRACE)
VARIABLES l, U, rows
vars == <<l, U, rows>>
Ev == Log[l]
Init == l = 1 /\ U = <<>> /\ rows = <<>>
Slash == 47
Dot == 46
HasSlash(s) == \E i \in 1..Len(s) : s[i] = Slash
\* a plain file name: non-empty, no separator, not one of the two directory names
Plain(s) == s # <<>> /\ ~HasSlash(s) /\ s # <<Dot>> /\ s # <<Dot, Dot>>
\* a relative directory: empty, or not starting at the root
RelDir(s) == s = <<>> \/ s[1] # Slash
\* POSIX leaves a leading "//" implementation defined; the two path libraries the code builds against disagree on it
DoubleSlash(s) == Len(s) >= 2 /\ s[1] = Slash /\ s[2] = Slash
Reset == Ev.e = "Reset" /\ U' = <<>> /\ rows' = <<>>
Universe == Ev.e = "Universe" /\ U' = Ev.strs /\ rows' = <<>>
AsSet(seq) == {seq[i] : i \in 1..Len(seq)}
\* equivalence: the row of k contains k, equals the row of everything in it, and is disjoint from every other row seen
EqRow == /\ Ev.e = "EqRow" /\ UNCHANGED U
         /\ LET k == Ev.i  row == AsSet(Ev.eq) IN
            /\ k \in row                                                                 \* reflexive
            /\ \A j \in DOMAIN rows : IF j \in row THEN rows[j] = row ELSE k \notin rows[j] /\ rows[j] \cap row = {}   \* symmetric, transitive
            /\ \A j \in 1..Len(U) : CIEqual(U[k], U[j]) => j \in row                      \* contains case-insensitive equality
            /\ rows' = rows @@ (k :> row)
DotSlash == /\ Ev.e = "DotSlash" /\ UNCHANGED <<U, rows>>
            /\ (U[Ev.i] # <<>> /\ ~HasSlash(U[Ev.i])) => Ev.v = TRUE
JoinRow == /\ Ev.e = "JoinRow" /\ UNCHANGED <<U, rows>>
           /\ RelDir(U[Ev.d]) => \A j \in 1..Len(U) : Plain(U[j]) => Ev.r[j] = U[j]
Split == /\ Ev.e = "Split" /\ UNCHANGED <<U, rows>>
         /\ ~DoubleSlash(U[Ev.i]) => (~Ev.threw /\ Ev.eq = TRUE)
ExtRow == /\ Ev.e = "ExtRow" /\ UNCHANGED <<U, rows>>
          /\ (Plain(U[Ev.f]) /\ Ev.ext # <<>> /\ Ev.ext # <<Dot>>) => (~Ev.threw /\ Len(Ev.v) > 0 /\ \A i \in 1..Len(Ev.v) : Ev.v[i] = TRUE)
\* strict weak order whose incomparability is case-insensitive equality, on the logged triple
Cmp3 == /\ Ev.e = "Cmp3" /\ UNCHANGED <<U, rows>>
        /\ LET L == Ev.less  E == Ev.eq  I == 1..3
               Inc(i, j) == ~L[i][j] /\ ~L[j][i] IN
           /\ \A i \in I : ~L[i][i]
           /\ \A i, j \in I : L[i][j] => ~L[j][i]
           /\ \A i, j, k \in I : L[i][j] /\ L[j][k] => L[i][k]
           /\ \A i, j \in I : Inc(i, j) <=> E[i][j]
           /\ \A i, j \in I : E[i][j] <=> CIEqual(Ev.s[i], Ev.s[j])
           /\ \A i, j, k \in I : Inc(i, j) /\ Inc(j, k) => Inc(i, k)
Next == l <= Len(Log) /\ l' = l + 1 /\ (Reset \/ Universe \/ EqRow \/ DotSlash \/ JoinRow \/ Split \/ ExtRow \/ Cmp3)
Spec == Init /\ [][Next]_vars
Accepted == TLCGet("stats").diameter - 1 = Len(Log)
===============================================================================
