---- MODULE XPaths ----
(***************************************************************************************************)
(* Beyond the listed properties: an explicit lexical model of the XFile path helpers on POSIX-style *)
(* paths (sequences of character codes, '/' separates, no root names).  C19 states laws over the     *)
(* observed relation; this module states the functions themselves, on the domain of well-formed      *)
(* inputs below (a directory part that is empty or ends in a component, a plain file name).          *)
(***************************************************************************************************)
EXTENDS Naturals, Sequences, Names
\* The code builds against std::experimental::filesystem or std::filesystem, whichever the tool chain offers.  They differ in one rule that
\* is visible here: the experimental library treats a file name that starts with its only dot (".h") as all extension, the standard one as
\* all stem.  TS = TRUE selects the experimental rule; the conformance harness probes which library it was linked with.
CONSTANT TS
Slash == 47
Dot == 46
RECURSIVE LastIndexOf(_, _, _)
LastIndexOf(s, c, i) == IF i = 0 THEN 0 ELSE IF s[i] = c THEN i ELSE LastIndexOf(s, c, i - 1)
LastSlash(p) == LastIndexOf(p, Slash, Len(p))
FilenameOf(p) == SubSeq(p, LastSlash(p) + 1, Len(p))
DirPart(p) == SubSeq(p, 1, LastSlash(p))                      \* with its trailing separator
\* the extension starts at the last dot of the file name, unless that dot is the first character or the name is "." / ".."
ExtOf(name) == LET i == LastIndexOf(name, Dot, Len(name)) IN
               IF name = <<Dot>> \/ name = <<Dot, Dot>> \/ i = 0 \/ (i = 1 /\ ~TS) THEN <<>> ELSE SubSeq(name, i, Len(name))
StemOf(name) == SubSeq(name, 1, Len(name) - Len(ExtOf(name)))
Rooted(p) == p # <<>> /\ p[1] = Slash
Join(a, b) == IF a = <<>> THEN b ELSE IF a[Len(a)] = Slash THEN a \o b ELSE a \o <<Slash>> \o b
WithDot(e) == IF e = <<>> \/ e[1] = Dot THEN e ELSE <<Dot>> \o e
GetFileExtension(p) == ExtOf(FilenameOf(p))
GetFilename(p) == FilenameOf(p)
GetDirectory(p) == DirPart(p)
ReplaceFilename(p, f) == DirPart(p) \o f
AppendToFilename(p, v) == DirPart(p) \o StemOf(FilenameOf(p)) \o v \o ExtOf(FilenameOf(p))
AppendSubDirectory(p, sub) == DirPart(p) \o sub \o <<Slash>> \o FilenameOf(p)
ChangeFileExtension(p, e) == DirPart(p) \o StemOf(FilenameOf(p)) \o WithDot(e)
MakeAbsolute(p, root) == IF Rooted(p) THEN p ELSE Join(root, p)
ExtensionMatches(p, e) == CIEqual(GetFileExtension(p), WithDot(e))
====
