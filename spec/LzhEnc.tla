---- MODULE LzhEnc ----
(* Reference encoder for the LZH stream: tokens -> bits -> bytes, and the payload they denote.     *)
EXTENDS Lzh
\* a token is [k |-> "lit", c |-> 0..255] or [k |-> "match", len |-> 3..60, dist |-> 0..4095]
\* dist is the coded distance: the copy starts (dist + 1) bytes behind the write position
RECURSIVE ToBits(_, _)
ToBits(v, n) == IF n = 0 THEN <<>> ELSE Append(ToBits(v \div 2, n - 1), v % 2)     \* n bits, MSB first
UpperCode(u) == IF u = 0 THEN <<0, 3>> ELSE IF u <= 3 THEN <<u + 1, 4>> ELSE IF u <= 11 THEN <<u + 6, 5>>
                ELSE IF u <= 23 THEN <<u + 24, 6>> ELSE IF u <= 47 THEN <<u + 72, 7>> ELSE <<u + 192, 8>>
DistBits(d) == LET uc == UpperCode(d \div 64) IN ToBits(uc[1], uc[2]) \o ToBits(d % 64, 6)
SymOf(tok) == IF tok.k = "lit" THEN tok.c ELSE tok.len + 253
\* encoder state: [tree, win, w]; returns [st, bits, out]
EncInit == [tree |-> InitTree, win |-> [i \in 1..WinSize |-> 32], w |-> 0]
EncodeTok(e, tok) ==
  LET s == SymOf(tok)
      path == EncodePath(e.tree, s)
      t2 == Update(e.tree, s)
  IN IF tok.k = "lit"
     THEN [st |-> [tree |-> t2, win |-> [e.win EXCEPT ![e.w + 1] = tok.c], w |-> (e.w + 1) % WinSize],
           bits |-> path, out |-> <<tok.c>>]
     ELSE LET cr == CopyRun(e.win, e.w, (e.w + WinSize - tok.dist - 1) % WinSize, tok.len, <<>>) IN
          [st |-> [tree |-> t2, win |-> cr[1], w |-> (e.w + tok.len) % WinSize],
           bits |-> path \o DistBits(tok.dist), out |-> cr[2]]
RECURSIVE EncodeAll(_, _, _, _)
EncodeAll(e, toks, bits, out) ==
  IF toks = <<>> THEN <<bits, out>>
  ELSE LET r == EncodeTok(e, Head(toks)) IN EncodeAll(r.st, Tail(toks), bits \o r.bits, out \o r.out)
BitsToByte(b) == 128 * b[1] + 64 * b[2] + 32 * b[3] + 16 * b[4] + 8 * b[5] + 4 * b[6] + 2 * b[7] + b[8]
RECURSIVE Pack(_)
Pack(bits) == IF bits = <<>> THEN <<>>
              ELSE IF Len(bits) < 8 THEN << BitsToByte(bits \o [i \in 1..(8 - Len(bits)) |-> 0]) >>
              ELSE << BitsToByte(SubSeq(bits, 1, 8)) >> \o Pack(SubSeq(bits, 9, Len(bits)))
Encode(toks) == LET r == EncodeAll(EncInit, toks, <<>>, <<>>) IN [bytes |-> Pack(r[1]), payload |-> r[2], nbits |-> Len(r[1])]
\* full decode as a recursive operator (small inputs)
RECURSIVE DecodeFrom(_, _, _, _)
DecodeFrom(inp, d, out, ncodes) ==
  LET r == DecodeCode(inp, d) IN
  IF r.err THEN [out |-> out, err |-> TRUE, ncodes |-> ncodes]
  ELSE IF AtEnd(inp, r.st) THEN [out |-> out \o r.out, err |-> FALSE, ncodes |-> ncodes + 1]
  ELSE DecodeFrom(inp, r.st, out \o r.out, ncodes + 1)
Decode(inp) == DecodeFrom(inp, DecInit, <<>>, 0)
IsPrefix(a, b) == Len(a) <= Len(b) /\ SubSeq(b, 1, Len(a)) = a
====
