---- MODULE MC_CopyBig ----
(* C14 (d) at the template's real chunk size 0x20000: lengths around multiples of the chunk, two start positions.  The   *)
(* expectation is the law TLC checks on CopyLoop for every small instance: the destination is exactly src[start..len).     *)
EXTENDS Naturals, Sequences, TLC, Json, Bytes
VARIABLES done
ChunkSize == 131072
Lens == {0, 1, ChunkSize - 1, ChunkSize, ChunkSize + 1, 2 * ChunkSize - 1, 2 * ChunkSize, 2 * ChunkSize + 1}
Init == done = FALSE
Next == /\ ~done /\ done' = TRUE
        /\ \A len \in Lens : \A start \in {0, 1, ChunkSize} : start <= len =>
             PrintT("S|" \o ToJson([id |-> <<len, start>>, steps |-> << [op |-> "copy_big", len |-> len, start |-> start, segs |-> << Blob(3, start, len - start) >>] >>]))
Spec == Init /\ [][Next]_done
====
