---- MODULE CopyBounds ----
(***************************************************************************************************)
(* The counters of CopyLoop.tla (reader position, bytes written, reads issued) without the data, for   *)
(* ANY source length, ANY start position and ANY chunk size >= 1.  Apalache discharges the inductive    *)
(* invariant (written = pos - start, and at termination pos = len: exactly the rest was copied, with    *)
(* the number of reads the loop structure implies bounded by the bytes copied) for these unbounded       *)
(* parameters; TLC checks on the bounded instances of CopyLoop that its behaviours are behaviours of     *)
(* this machine (PROPERTY RefinesBounds) and - there only - that the loop terminates.                    *)
(***************************************************************************************************)
EXTENDS Integers
VARIABLES
  \* @type: Int;
  len,
  \* @type: Int;
  chunk,
  \* @type: Int;
  start,
  \* @type: Int;
  pos,
  \* @type: Int;
  written,
  \* @type: Int;
  reads,
  \* @type: Bool;
  done
\* @type: <<Int, Int, Int, Int, Int, Int, Bool>>;
vars == <<len, chunk, start, pos, written, reads, done>>
Init == /\ len \in Nat /\ chunk \in Nat /\ chunk >= 1 /\ start \in Nat /\ start <= len
        /\ pos = start /\ written = 0 /\ reads = 0 /\ done = FALSE
Delivered == IF chunk > len - pos THEN len - pos ELSE chunk
Step == /\ ~done
        /\ pos' = pos + Delivered /\ written' = written + Delivered /\ reads' = reads + 1
        /\ done' = (Delivered = 0)
        /\ UNCHANGED <<len, chunk, start>>
Next == Step
Spec == Init /\ [][Next]_vars
IndInv == /\ len \in Nat /\ chunk \in Nat /\ start \in Nat /\ pos \in Nat /\ written \in Nat /\ reads \in Nat /\ done \in BOOLEAN
          /\ chunk >= 1 /\ start <= pos /\ pos <= len
          /\ written = pos - start
          /\ (done => pos = len)
          /\ reads <= written + 1 + (IF done THEN 1 ELSE 0)                  \* every read but the last (and a possibly empty first) delivers at least one byte
          /\ (~done => reads * chunk = written \/ pos = len)                  \* full chunks until the source runs out
CopiesExactlyTheRest == done => written = len - start
====
