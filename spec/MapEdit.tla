---- MODULE MapEdit ----
(***************************************************************************************************)
(* C06, edit clause: the public editing operations of a map as a state machine over the logical map *)
(* of module MapFile.  Each action is one public call; a refused call (cell type out of range) is a    *)
(* step that changes nothing.  TLC explores every edit sequence up to Depth from two initial maps and    *)
(* checks, as action properties, that each operation changes exactly what it names; every behaviour is     *)
(* exported with the serialisation (MapFile!Encode) expected after each edit, which the harness compares    *)
(* with Map::Write after the same calls on the real object.                                               *)
(***************************************************************************************************)
EXTENDS MapFile
CONSTANTS Depth
VARIABLES m, hist, start
vars == <<m, hist, start>>
\* ---- initial maps -----------------------------------------------------------------------------------------------
TilePool == << <<0,0,0,0>>, <<255,255,255,255>>, <<21,0,0,16>>, <<31,224,255,239>>, <<1,2,3,4>>, <<32,1,0,0>> >>
Src(name, n) == [name |-> name, n |-> <<n, 0, 0, 0>>]
BaseMap(sources) ==
  [ver |-> 4114, saved |-> FALSE, lg |-> 6, h |-> 2, tiles |-> [i \in 1..128 |-> TilePool[((i + 5) % Len(TilePool)) + 1]], clip |-> [i \in 1..16 |-> (85 + i * 3) % 256],
   sources |-> sources, mappings |-> << <<1,0,2,0,3,0,4,0>>, <<5,0,6,0,7,0,8,0>> >>, terrains |-> <<11>>,
   groups |-> << [w |-> 2, h |-> 1, idx |-> << <<1,0,0,0>>, <<2,0,0,0>> >>, name |-> <<103>>] >>]
\* unused slots (empty name, or zero tiles) in front of, between and behind used ones
MapA == BaseMap(<< Src(<<119,101,108,108,48,48,48,49>>, 200), Src(<<>>, 0), Src(<<97>>, 0) >>)
MapB == BaseMap(<< Src(<<>>, 0), Src(<<119,49>>, 9), Src(<<119,50>>, 1), Src(<<120>>, 0), Src(<<119,51>>, 2), Src(<<>>, 0), Src(<<119,52>>, 7) >>)
\* a wide map (512 x 1): coordinates beyond the first 256 columns
MapC == [BaseMap(<< Src(<<119,49>>, 9) >>) EXCEPT !.lg = 9, !.h = 1, !.tiles = [i \in 1..512 |-> TilePool[((i * 7 + (i \div 32)) % Len(TilePool)) + 1]]]
StartMap(s) == IF s = "A" THEN MapA ELSE IF s = "B" THEN MapB ELSE MapC
Init == start \in {"A", "B", "C"} /\ m = StartMap(start) /\ hist = <<>>
\* ---- actions ------------------------------------------------------------------------------------------------------
Log(e, refused) == hist' = Append(hist, [e |-> e, refused |-> refused, after |-> Encode(m')])
Coords == IF start = "C" THEN { <<44, 0>>, <<300, 0>>, <<511, 0>>, <<256, 0>> } ELSE { <<0, 0>>, <<33, 1>>, <<63, 1>>, <<32, 0>> }
SetCell(c, x, y) == IF c <= 31 THEN m' = SetCellType(m, c, x, y) /\ Log([k |-> "cell", c |-> c, x |-> x, y |-> y], FALSE)
                    ELSE m' = m /\ Log([k |-> "cell", c |-> c, x |-> x, y |-> y], TRUE)
SetLava(v, x, y) == m' = SetLavaPossible(m, v, x, y) /\ Log([k |-> "lava", v |-> v, x |-> x, y |-> y], FALSE)
SetVer(v) == m' = SetVersionTag(m, v) /\ Log([k |-> "ver", v |-> v], FALSE)
TrimSources == m' = Trim(m) /\ Log([k |-> "trim"], FALSE)
Next == /\ Len(hist) < Depth /\ UNCHANGED start
        /\ \/ \E xy \in Coords : \E c \in {0, 21, 31, 32, 9999} : SetCell(c, xy[1], xy[2])
           \/ \E xy \in Coords : \E v \in {0, 1} : SetLava(v, xy[1], xy[2])          \* the tiles under Coords carry every pattern of the pool (lava bit set and clear)
           \/ \E v \in {4112, 4200} : SetVer(v)
           \/ TrimSources
Spec == Init /\ [][Next]_vars
\* ---- "each operation changes exactly what it names" ------------------------------------------------------------------
Last == hist'[Len(hist')]
OtherTiles(i) == \A j \in 1..Len(m.tiles) : j # i => m'.tiles[j] = m.tiles[j]
Except(fields) == \A f \in {"ver", "saved", "lg", "h", "tiles", "clip", "sources", "mappings", "terrains", "groups"} \ fields : m'[f] = m[f]
CellFrame == [][ (hist' # hist /\ Last.e.k = "cell") =>
                   /\ Except({"tiles"})
                   /\ LET i == TileIndex(Last.e.x, Last.e.y, m.h) + 1 IN
                      /\ OtherTiles(i)
                      /\ IF Last.refused THEN m'.tiles[i] = m.tiles[i]
                         ELSE CellTypeOf(m'.tiles[i]) = Last.e.c /\ MappingOf(m'.tiles[i]) = MappingOf(m.tiles[i])
                              /\ m'.tiles[i][3] = m.tiles[i][3] /\ m'.tiles[i][4] = m.tiles[i][4] ]_vars
LavaFrame == [][ (hist' # hist /\ Last.e.k = "lava") =>
                   /\ Except({"tiles"})
                   /\ LET i == TileIndex(Last.e.x, Last.e.y, m.h) + 1 IN
                      OtherTiles(i) /\ LavaPossibleOf(m'.tiles[i]) = Last.e.v /\ CellTypeOf(m'.tiles[i]) = CellTypeOf(m.tiles[i])
                      /\ m'.tiles[i][1] = m.tiles[i][1] /\ m'.tiles[i][2] = m.tiles[i][2] /\ m'.tiles[i][3] = m.tiles[i][3] ]_vars
VerFrame == [][ (hist' # hist /\ Last.e.k = "ver") => Except({"ver"}) /\ m'.ver = Last.e.v ]_vars
\* trimming removes exactly the unused slots and keeps the others in order
IsSubseq(a, b) == \E f \in [1..Len(a) -> 1..Len(b)] : (\A i \in 1..Len(a) : a[i] = b[f[i]]) /\ (\A i, j \in 1..Len(a) : i < j => f[i] < f[j])
TrimFrame == [][ (hist' # hist /\ Last.e.k = "trim") =>
                   /\ Except({"sources"})
                   /\ \A i \in 1..Len(m'.sources) : ~IsEmptySource(m'.sources[i])
                   /\ Len(m'.sources) = Cardinality({i \in 1..Len(m.sources) : ~IsEmptySource(m.sources[i])})
                   /\ IsSubseq(m'.sources, m.sources) ]_vars
Export == Len(hist) = Depth =>
  PrintT("S|" \o ToJson([id |-> <<start, [i \in 1..Len(hist) |-> hist[i].e.k]>>,
                         steps |-> << [op |-> "map_edits", input |-> Encode(StartMap(start)), edits |-> [i \in 1..Len(hist) |-> hist[i].e],
                                       refused |-> [i \in 1..Len(hist) |-> hist[i].refused], after |-> [i \in 1..Len(hist) |-> hist[i].after]] >>]))
====
