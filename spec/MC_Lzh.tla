---- MODULE MC_Lzh ----
(* Bounded instance for C04 (pipeline G): token sequences -> reference encoder -> reference decoder, and raw  *)
(* byte strings -> reference decoder; each paired with drain schedules.                                        *)
EXTENDS LzhEnc, TLC, Json
CONSTANTS MaxToks
VARIABLES done
Lit(c) == [k |-> "lit", c |-> c]
M(l, d) == [k |-> "match", len |-> l, dist |-> d]
\* one distance per prefix class boundary; lengths at both ends
Toks == { Lit(0), Lit(32), Lit(65), Lit(255),
          M(3, 0), M(4, 31), M(59, 32), M(60, 79), M(3, 80), M(60, 143), M(4, 144), M(59, 191),
          M(3, 192), M(60, 239), M(3, 240), M(60, 4095), M(60, 0), M(5, 2000) }
Data(n) == [k |-> "data", n |-> n]
IBuf == [k |-> "ibuf", n |-> 0]
Schedules == << <<>>, <<Data(1), Data(1), Data(2), IBuf, Data(61), Data(62)>>, <<IBuf, IBuf>>, <<Data(4097)>>,
                <<Data(1), IBuf, Data(4033), Data(4034), IBuf>>, <<Data(10000)>>, <<Data(4095), Data(4096), Data(1)>> >>
Seqs(S, n) == [1..n -> S]
Case(kind, id, bytes, out, payloadLen) ==
  \A si \in 1..Len(Schedules) :
    PrintT("S|" \o ToJson([id |-> <<kind, id, si>>, steps |-> << [op |-> "lzh", bytes |-> bytes, out |-> out, payload |-> payloadLen, sched |-> Schedules[si]] >>]))
CheckToks(ts) == LET e == Encode(ts)  d == Decode(e.bytes) IN
   /\ Assert(~d.err /\ IsPrefix(e.payload, d.out) /\ d.ncodes >= Len(ts) /\ d.ncodes - Len(ts) < 8, <<"decode of encode", ts>>)
   /\ Case("toks", ts, e.bytes, d.out, Len(e.payload))
ByteVals == {0, 1, 127, 128, 254, 255, 85, 32}
CheckBytes(bs) == LET d == Decode(bs) IN Assert(~d.err, "no capacity error on short inputs") /\ Case("bytes", bs, bs, d.out, 0)
Init == done = FALSE
Next == /\ ~done /\ done' = TRUE
        /\ \A n \in 1..MaxToks : \A ts \in Seqs(Toks, n) : CheckToks(ts)
        /\ \A n \in 0..2 : \A bs \in Seqs(ByteVals, n) : CheckBytes(bs)
        /\ \A v \in ByteVals : \A n \in {3, 17, 64, 300} : CheckBytes([i \in 1..n |-> v])
Spec == Init /\ [][Next]_done
====
