---- MODULE MC_VolFault ----
EXTENDS VolFault, TLC, Json, Mutate
CONSTANTS Seed, NRand
VARIABLES done
M(name, payload) == [name |-> name, size |-> Len(payload), data |-> << Lit(payload) >>, kind |-> Uncompressed]
Base == << << M(<<97>>, <<11,12,13,14,15>>), M(<<98,98>>, <<21,22>>) >>,
           << M(<<97,46,116>>, <<>>), M(<<99>>, <<31,32,33>>), M(<<100,100,100>>, <<41,42,43,44>>) >> >>
\* two call scripts per image: members in ascending and in descending order, so that a refused call is followed by calls on
\* other (intact) members in both directions
CallsDir(n, up) == << [call |-> "GetCount", i |-> 0] >> \o Flatten([j \in 1..(n + 2) |-> LET i == IF up THEN j - 1 ELSE n + 2 - j IN << [call |-> "GetName", i |-> i], [call |-> "GetSize", i |-> i],
                 [call |-> "OpenStream", i |-> i], [call |-> "GetName", i |-> i], [call |-> "Extract", i |-> i], [call |-> "SeekBeyond", i |-> i], [call |-> "OpenStreamAfterFailedRead", i |-> i], [call |-> "OpenStream", i |-> i] >>])
Emit(id, img, n) == \A up \in BOOLEAN : PrintT("S|" \o ToJson([id |-> <<id, up>>, steps |-> << [op |-> "robust_vol", image |-> img, calls |-> CallsDir(n, up)] >>]))
\* an archive from the independent encoder whose last member is LZH-compressed: truncations inside its block and corruptions of its lengths
LZ == INSTANCE LzhEnc WITH NSym <- 314, MaxCount <- 65535
Lit8(c) == [k |-> "lit", c |-> c]
Mt(l, d) == [k |-> "match", len |-> l, dist |-> d]
LzMember == LET e == LZ!Encode(<< Lit8(65), Mt(5, 0), Lit8(66), Mt(60, 4095), Lit8(0), Mt(3, 1), Lit8(200), Mt(17, 3) >>) IN
            [name |-> <<122>>, size |-> Len(e.payload), kind |-> LZH, stored |-> e.bytes]
LzBase == << [name |-> <<97>>, size |-> 5, kind |-> Uncompressed, stored |-> <<11,12,13,14,15>>], LzMember >>
Init == done = FALSE
Next == /\ ~done /\ done' = TRUE
        /\ \A bi \in 1..Len(Base) :
             LET ms == Base[bi]  img == FlatSegs(Layout(ms))  flen == Len(img) IN
             /\ Assert(flen = FileLen(ms), "flatten")
             /\ Emit(<<"base", bi>>, img, Len(ms))
             /\ \A k \in 0..(flen - 1) : Emit(<<"prefix", bi, k>>, Trunc(img, k), Len(ms))
             /\ \A f \in Fields(ms) : \A v \in (IF f[4] THEN SectionBoundary(f[3], flen) ELSE Boundary(f[3], flen)) :
                  Emit(<<"field", bi, f[1], f[2], v>>, SetBytes(img, f[2], v), Len(ms))
             \* coordinated: index length not a multiple of the entry size, with the outer length adjusted to contain it
             /\ \A extra \in {1, 13, 15} :
                  LET voliHdr == 24 + PaddedNames(ms)
                      grown == SubSeq(img, 1, voliHdr + 8 + IndexLen(ms)) \o [i \in 1..extra |-> 255] \o SubSeq(img, voliHdr + 8 + IndexLen(ms) + 1, flen)
                      img2 == SetBytes(SetBytes(grown, voliHdr + 4, Flagged(IndexLen(ms) + extra)), 4, Flagged(HeaderLen(ms) + extra))
                  IN Emit(<<"index-slack", bi, extra>>, img2, Len(ms))
             \* coordinated: more valid index entries than names (actual name-table length cut to the first name)
             /\ Emit(<<"fewer-names", bi>>, SetBytes(img, 24, Small32(Len(ms[1].name) + 1)), Len(ms))
        /\ LET img == RefEncode(LzBase, 0, 0)  flen == Len(img)  blk == RBlockOff(LzBase, 0, 0, 2)  ent == 24 + PaddedNames(LzBase) + 8 + 14 IN
             /\ Emit(<<"lzh-base">>, img, 2)
             /\ \A k \in 0..(flen - 1) : Emit(<<"lzh-prefix", k>>, Trunc(img, k), 2)
             /\ \A v \in SectionBoundary(Len(LzMember.stored), flen) : Emit(<<"lzh-field", "block.len", v>>, SetBytes(img, blk + 4, v), 2)
             /\ \A v \in Boundary(LzMember.size, flen) : Emit(<<"lzh-field", "entry.size", v>>, SetBytes(img, ent + 8, v), 2)
             /\ \A v \in Boundary(blk, flen) : Emit(<<"lzh-field", "entry.block", v>>, SetBytes(img, ent + 4, v), 2)
             /\ \A r \in 1..(NRand \div 4) : Emit(<<"lzh-random", Seed, r>>, Mutated(img, Seed * 607 + r), 2)
        \* an archive from the independent encoder with an unused trailing index slot, index slack and an EMPTY LAST member (its block header is the
        \* last thing in the file): every truncation, and random corruption
        /\ LET ms == << [name |-> <<97>>, size |-> 5, kind |-> Uncompressed, stored |-> <<11,12,13,14,15>>], [name |-> <<122,122>>, size |-> 0, kind |-> Uncompressed, stored |-> <<>>] >>
               img == RefEncode(ms, 1, 2)  flen == Len(img) IN
             /\ Emit(<<"ref-base">>, img, 2)
             /\ \A k \in 0..(flen - 1) : Emit(<<"ref-prefix", k>>, Trunc(img, k), 2)
             /\ \A r \in 1..(NRand \div 4) : Emit(<<"ref-random", Seed, r>>, Mutated(img, Seed * 613 + r), 2)
        /\ \A r \in 1..NRand : LET bi == 1 + (r % Len(Base))  img == FlatSegs(Layout(Base[bi])) IN
             Emit(<<"random", Seed, r>>, Mutated(img, Seed * 601 + r), Len(Base[bi]))
Spec == Init /\ [][Next]_done
====
