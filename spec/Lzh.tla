---- MODULE Lzh ----
(* LZSS + adaptive Huffman ("LZH") as stored in VOL archives: 4 KiB window initially filled with  *)
(* spaces, 314 symbols (256 literals + 58 match lengths 3..60), distances 0..4095 coded as an     *)
(* 8-bit prefix (upper six bits through a fixed table) plus 1..6 extra bits. MSB-first bit stream; *)
(* bits past the end of the input read as 0.                                                        *)
EXTENDS Naturals, Sequences, Huffman
WinSize == 4096
\* ---- bit cursor ---------------------------------------------------------------------------------
NBits(inp) == 8 * Len(inp)
Pow2(k) == CASE k = 0 -> 1 [] k = 1 -> 2 [] k = 2 -> 4 [] k = 3 -> 8 [] k = 4 -> 16 [] k = 5 -> 32 [] k = 6 -> 64 [] k = 7 -> 128
BitAt(inp, p) == IF p >= NBits(inp) THEN 0 ELSE (inp[(p \div 8) + 1] \div Pow2(7 - (p % 8))) % 2
\* value of the k bits starting at p, first bit most significant
RECURSIVE BitsVal(_, _, _)
BitsVal(inp, p, k) == IF k = 0 THEN 0 ELSE 2 * BitsVal(inp, p, k - 1) + BitAt(inp, p + k - 1)
\* ---- distance code ------------------------------------------------------------------------------
ExtraBits(o) == IF o < 32 THEN 1 ELSE IF o < 80 THEN 2 ELSE IF o < 144 THEN 3 ELSE IF o < 192 THEN 4 ELSE IF o < 240 THEN 5 ELSE 6
Upper(o) == IF o < 32 THEN 0 ELSE IF o < 80 THEN ((o - 32) \div 16) + 1 ELSE IF o < 144 THEN ((o - 80) \div 8) + 4
            ELSE IF o < 192 THEN ((o - 144) \div 4) + 12 ELSE IF o < 240 THEN ((o - 192) \div 2) + 24 ELSE o - 192
\* ---- one decoding step ----------------------------------------------------------------------------
\* descend from the root taking one bit per inner node; result <<leaf node, new bit position>>
RECURSIVE Descend(_, _, _, _)
Descend(t, inp, i, p) == IF IsLeaf(t, i) THEN <<i, p>>
                         ELSE Descend(t, inp, t.kid[i] + BitAt(inp, p), IF p >= NBits(inp) THEN p ELSE p + 1)
\* copy n bytes inside the window from st to w (may overlap), returns <<window, bytes copied>>
RECURSIVE CopyRun(_, _, _, _, _)
CopyRun(win, w, st, n, acc) ==
  IF n = 0 THEN <<win, acc>>
  ELSE LET c == win[st + 1] IN CopyRun([win EXCEPT ![w + 1] = c], (w + 1) % WinSize, (st + 1) % WinSize, n - 1, Append(acc, c))
\* state of a decoder: [tree, win, w, p]; DecodeCode returns [st |-> new state, out |-> bytes, err |-> BOOLEAN]
DecInit == [tree |-> InitTree, win |-> [i \in 1..WinSize |-> 32], w |-> 0, p |-> 0]
DecodeCode(inp, d) ==
  LET r == Descend(d.tree, inp, Root, d.p)
      code == d.tree.sym[r[1]]
      p1 == r[2]
  IN IF AtCapacity(d.tree) THEN [st |-> d, out |-> <<>>, err |-> TRUE]
     ELSE LET t2 == Update(d.tree, code) IN
       IF code < 256
       THEN [st |-> [tree |-> t2, win |-> [d.win EXCEPT ![d.w + 1] = code], w |-> (d.w + 1) % WinSize, p |-> p1],
             out |-> <<code>>, err |-> FALSE]
       ELSE LET atEnd == p1 >= NBits(inp)
                o8 == IF atEnd THEN 0 ELSE BitsVal(inp, p1, 8)
                p2 == IF atEnd THEN p1 ELSE p1 + 8
                eb == ExtraBits(o8)
                \* extra bits are read one at a time; each read past the end yields 0 and does not advance
                low == (o8 * Pow2(eb) + BitsVal(inp, p2, eb)) % 64
                p3 == IF p2 + eb <= NBits(inp) THEN p2 + eb ELSE IF p2 >= NBits(inp) THEN p2 ELSE NBits(inp)
                off == Upper(o8) * 64 + low
                st == (d.w + WinSize - off - 1) % WinSize
                cr == CopyRun(d.win, d.w, st, code - 253, <<>>)
            IN [st |-> [tree |-> t2, win |-> cr[1], w |-> (d.w + (code - 253)) % WinSize, p |-> p3],
                out |-> cr[2], err |-> FALSE]
AtEnd(inp, d) == d.p >= NBits(inp)
====
