---- MODULE MC_LimitsPrt ----
(* C20, frames: a frame whose layer list length differs from its 7-bit count is refused by the writer; every   *)
(* count 0..127 against every list length 0..MaxLayers.  When the two agree the written bytes are those of Prt. *)
EXTENDS Prt
CONSTANTS MaxLayers
VARIABLES done
L(k) == <<k % 256, 0, 7, k % 256, 1, 0, 255, 255>>
F(c, n) == [n1 |-> c, o1 |-> 0, n2 |-> 5, o2 |-> 1, opt |-> <<11, 12, 13, 14>>, layers |-> [i \in 1..n |-> L(i)]]
Anim(f) == [u1 |-> <<1,2,3,4>>, rect |-> [i \in 1..16 |-> i], disp |-> [i \in 1..8 |-> 100 + i], u2 |-> <<60,0,0,0>>, frames |-> <<f>>, unk |-> <<>>]
V(c, n) == [palettes |-> <<>>, images |-> <<>>, anims |-> << Anim(F(c, n)) >>, unknownCount |-> 0]
WriteCase(v) == [op |-> "prt_write", value |-> v, expect |-> IF RulesHold(v) THEN "ok" ELSE "refuse", canon |-> IF RulesHold(v) THEN Encode(v) ELSE <<>>]
\* two frames (in one animation, or in two) whose count / list-length errors cancel in the totals: still refused, frame by frame
Anim2(f, g) == [u1 |-> <<1,2,3,4>>, rect |-> [i \in 1..16 |-> i], disp |-> [i \in 1..8 |-> 100 + i], u2 |-> <<60,0,0,0>>, frames |-> <<f, g>>, unk |-> <<>>]
V2(c1, n1, c2, n2, split) == [palettes |-> <<>>, images |-> <<>>, unknownCount |-> 0,
                              anims |-> IF split THEN << Anim(F(c1, n1)), Anim(F(c2, n2)) >> ELSE << Anim2(F(c1, n1), F(c2, n2)) >>]
Init == done = FALSE
Next == /\ ~done /\ done' = TRUE
        /\ \A c \in 0..127 :
             /\ Assert(\A n \in 0..MaxLayers : RulesHold(V(c, n)) <=> (n = c), "the rule is: list length = count")
             /\ PrintT("S|" \o ToJson([id |-> <<"layers", c>>, steps |-> [k \in 1..(MaxLayers + 1) |-> WriteCase(V(c, k - 1))]]))
             \* list lengths that agree with the count only modulo 2^7 or 2^8 (what a narrowed comparison would accept)
             /\ (c % 16 \in {0, 4, 15} =>
                   PrintT("S|" \o ToJson([id |-> <<"layers-mod", c>>, steps |-> << WriteCase(V(c, c + 128)), WriteCase(V(c, c + 256)), WriteCase(V(c, c + 512)) >>])))
        /\ \A pr \in { <<3, 2, 2, 3>>, <<0, 1, 1, 0>>, <<5, 4, 5, 6>>, <<127, 126, 0, 1>>, <<2, 2, 3, 3>> } : \A split \in BOOLEAN :
             PrintT("S|" \o ToJson([id |-> <<"layer-pairs", pr, split>>, steps |-> << WriteCase(V2(pr[1], pr[2], pr[3], pr[4], split)) >>]))
Spec == Init /\ [][Next]_done
====
