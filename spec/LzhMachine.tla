---- MODULE LzhMachine ----
(***************************************************************************************************)
(* The LZH decoder as a state machine: one DecodeStep per code.  Used for inputs that are too long    *)
(* for the recursive Decode of LzhEnc, in particular inputs that need more symbol updates than the     *)
(* 16-bit counters of the adaptive tree can represent: the step that would perform update number       *)
(* MaxCount - NSym + 1 is an error and decoding ends there.                                            *)
(* The output is not kept (hundreds of kilobytes): the machine carries its length and an Adler-style     *)
(* checksum, which the conformance harness recomputes over the bytes the real decoder delivers.         *)
(* The window update of a match uses the closed form "byte k of the match is the old window byte at      *)
(* start + (k mod (dist+1))" (a copy that overlaps its own output is periodic); MC_Lzh asserts on every   *)
(* enumerated token that it agrees with the byte-by-byte CopyRun of module Lzh.                          *)
(***************************************************************************************************)
EXTENDS Lzh, TLC, Json
CONSTANTS InputKind, InputLen          \* which input, how many bytes
VARIABLES d, status, n, a, b, codes
vars == <<d, status, n, a, b, codes>>
\* ---- inputs (pure functions of the position, so that the harness can regenerate them) -------------------------------
InByte(i) == CASE InputKind = "zero" -> 0
               [] InputKind = "ff" -> 255
               [] InputKind = "aa" -> 170
               [] InputKind = "lcg" -> ((i * 1103 + (i \div 7) * 12345 + 7) \div 3) % 256
               [] OTHER -> (i * 37) % 256
Input == [i \in 1..InputLen |-> InByte(i)]
Mod == 65521
\* fold a short byte sequence into the checksum
RECURSIVE Sum(_, _, _)
Sum(bytes, x, y) == IF bytes = <<>> THEN <<x, y>> ELSE LET x2 == (x + Head(bytes)) % Mod IN Sum(Tail(bytes), x2, (y + x2) % Mod)
\* closed form of the window copy
MatchBytes(win, w, dist, len) == LET st == (w + WinSize - dist - 1) % WinSize IN [k \in 1..len |-> win[((st + ((k - 1) % (dist + 1))) % WinSize) + 1]]
RECURSIVE WinAfter(_, _, _)
WinAfter(win, w, bytes) == IF bytes = <<>> THEN win ELSE WinAfter([win EXCEPT ![w + 1] = Head(bytes)], (w + 1) % WinSize, Tail(bytes))
\* one decoding step, as Lzh!DecodeCode but with the closed-form copy
StepOf(inp, s) ==
  LET r == Descend(s.tree, inp, Root, s.p)
      code == s.tree.sym[r[1]]
      p1 == r[2]
  IN IF AtCapacity(s.tree) THEN [err |-> TRUE, st |-> s, out |-> <<>>]
     ELSE LET t2 == Update(s.tree, code) IN
       IF code < 256 THEN [err |-> FALSE, out |-> <<code>>, st |-> [tree |-> t2, win |-> [s.win EXCEPT ![s.w + 1] = code], w |-> (s.w + 1) % WinSize, p |-> p1]]
       ELSE LET atEnd == p1 >= NBits(inp)
                o8 == IF atEnd THEN 0 ELSE BitsVal(inp, p1, 8)
                p2 == IF atEnd THEN p1 ELSE p1 + 8
                eb == ExtraBits(o8)
                low == (o8 * Pow2(eb) + BitsVal(inp, p2, eb)) % 64
                p3 == IF p2 + eb <= NBits(inp) THEN p2 + eb ELSE IF p2 >= NBits(inp) THEN p2 ELSE NBits(inp)
                off == Upper(o8) * 64 + low
                bytes == MatchBytes(s.win, s.w, off, code - 253)
            IN [err |-> FALSE, out |-> bytes, st |-> [tree |-> t2, win |-> WinAfter(s.win, s.w, bytes), w |-> (s.w + (code - 253)) % WinSize, p |-> p3]]
Init == d = DecInit /\ status = "run" /\ n = 0 /\ a = 1 /\ b = 0 /\ codes = 0
DecodeStep == /\ status = "run"
              /\ LET r == StepOf(Input, d) IN
                 IF r.err THEN status' = "err" /\ UNCHANGED <<d, n, a, b, codes>>
                 ELSE LET s2 == Sum(r.out, a, b) IN
                      /\ d' = r.st /\ n' = n + Len(r.out) /\ a' = s2[1] /\ b' = s2[2] /\ codes' = codes + 1
                      /\ status' = IF AtEnd(Input, r.st) THEN "eos" ELSE "run"
Finished == status # "run" /\ UNCHANGED vars
Spec == Init /\ [][DecodeStep]_vars
\* ---- model-level properties ---------------------------------------------------------------------------------------
\* the root weight counts the codes: capacity is reached after exactly MaxCount - NSym codes, whatever they are
RootCounts == d.tree.wt[Root] = NSym + codes
CapacityOnlyAtLimit == status = "err" => codes = MaxCount - NSym
WindowCursor == d.w = n % WinSize
Export == status # "run" =>
  PrintT("S|" \o ToJson([id |-> <<InputKind, InputLen>>, steps |-> << [op |-> "lzh_long", kind |-> InputKind, len |-> InputLen,
                          outLen |-> n, a |-> a, b |-> b, codes |-> codes, err |-> status = "err"] >>]))
====
