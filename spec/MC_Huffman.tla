---- MODULE MC_Huffman ----
(* Bounded instance for C15: every update sequence up to Depth on a tree of NSym symbols, including the    *)
(* out-of-range symbol NSym.  MaxCount is set beyond reach here (the real capacity 65535 is bound by the    *)
(* long recorded histories validated with Trace_Huffman); MC_HuffmanCap explores capacity on the model.     *)
EXTENDS Huffman, TLC, Json
CONSTANT Depth
VARIABLES tree, hist
vars == <<tree, hist>>
Init == tree = InitTree /\ hist = <<>>
PathsOf(t) == [i \in 1..NSym |-> EncodePath(t, i - 1)]
Obs(t) == [shape |-> Shape(t), paths |-> PathsOf(t), rootw |-> t.wt[Root]]
DoUpdate(x) == /\ Len(hist) < Depth
               /\ IF CanUpdate(tree, x)
                  THEN /\ tree' = Update(tree, x)
                       /\ hist' = Append(hist, [x |-> x, ok |-> TRUE, obs |-> Obs(tree')])
                  ELSE /\ tree' = tree
                       /\ hist' = Append(hist, [x |-> x, ok |-> FALSE, obs |-> Obs(tree)])
Next == \E x \in 0..NSym : DoUpdate(x)
Spec == Init /\ [][Next]_vars
Inv == TreeOK(tree) /\ tree.wt[Root] <= MaxCount /\ tree.wt[Root] = NSym + Cardinality({i \in 1..Len(hist) : hist[i].ok})
\* every symbol outside 0..NSym-1 is refused with the tree unchanged: NSym stands for the class in the walks; at the end of each exported history the
\* harness also offers these representatives (16-bit parameter: the values next to 2^16, next to 2^15, and those whose sum with the node count 2 NSym - 1 wraps)
OutOfRange == << NSym + 1, 255, 256, 32767, 32768, 65535 - NSym, 65536 - (2 * NSym - 1), 65537 - (2 * NSym - 1), 65534, 65535 >>
OutOfRangeIsRefused == \A i \in 1..Len(OutOfRange) : OutOfRange[i] >= NSym => ~CanUpdate(tree, OutOfRange[i])
Export == (Len(hist) = Depth) => PrintT("S|" \o ToJson([id |-> <<NSym, Depth>>, steps |-> << [op |-> "huff_seq", n |-> NSym, init |-> Obs(InitTree), seq |-> hist,
                                                      refused |-> SelectSeq(OutOfRange, LAMBDA x : x >= NSym), final |-> Obs(tree)] >>]))
====
