------------------------------- MODULE StreamWriter -------------------------------
(***************************************************************************************************)
(* Writers (OP2Utility Stream::MemoryWriter, DynamicMemoryWriter, Writer::Write(Reader&),          *)
(* FileWriter).  Four small machines share this module; MC_StreamWriter instantiates one at a time  *)
(* through the constant Machine.                                                                    *)
(*                                                                                                 *)
(*  "fixed"   a writer over a caller-owned buffer of N cells, watched through guard zones            *)
(*  "grow"    a writer that owns a growing buffer: append, zero fill on forward seek, truncation     *)
(*  "copy"    the chunked Reader -> Writer copy loop, over the reader contract of StreamReader       *)
(*  "open"    FileWriter's open-flag matrix over a file system with one path                         *)
(*  "file"    a FileWriter on a new file: position independent of length, overwrite, gaps zero-filled  *)
(***************************************************************************************************)
EXTENDS Naturals, Sequences, FiniteSets, TLC, Json

CONSTANTS Machine, N

---------------------------------------------------------------------------------------------------
(* symbolic arguments, as in StreamReader *)
NSmall == N + 2
HugeNames == <<"P31", "P32", "P63", "MAX">>
Arg == 0 .. (NSmall + 4 + N)
IsSmall(a) == a < NSmall
ArgStr(a) == IF IsSmall(a) THEN ToString(a)
             ELSE IF a < NSmall + 4 THEN HugeNames[a - NSmall + 1]
             ELSE "W" \o ToString(a - NSmall - 4 + 1)
ArgClass(a) == IF IsSmall(a) THEN "small" ELSE IF a < NSmall + 4 THEN "huge" ELSE "wrap"
Gt(a, b) == ~IsSmall(a) \/ a > b
Emit(tag, r) == PrintT(tag \o "|" \o ToJson(r))

VARIABLES pos, cells, stamp
vars == <<pos, cells, stamp>>
\* cells: the bytes a reader of the result would see (0 = never written / zero filled, k > 0 = k-th write)
\* stamp bounds the number of writes so the state space is finite; stamps identify which write produced a byte

---------------------------------------------------------------------------------------------------
(* "fixed": cells has exactly N entries; a step that would leave [0, N] changes nothing *)
FixedInit == pos = 0 /\ cells = [i \in 1..N |-> 0] /\ stamp = 1
FStep(op, a, res, p2, c2, s2) ==
  /\ pos' = p2 /\ cells' = c2 /\ stamp' = s2
  /\ Emit("T", [f |-> <<pos, cells, stamp>>, op |-> op, a |-> ArgStr(a), cls |-> ArgClass(a), res |-> res,
                t |-> <<p2, c2, s2>>])
FWrite(k) == /\ stamp <= 3
             /\ IF Gt(k, N - pos) THEN FStep("Write", k, "err", pos, cells, stamp)
                ELSE FStep("Write", k, "ok", pos + k,
                           [i \in 1..N |-> IF i > pos /\ i <= pos + k THEN stamp ELSE cells[i]], stamp + 1)
FSeek(p) == IF Gt(p, N) THEN FStep("Seek", p, "err", pos, cells, stamp) ELSE FStep("Seek", p, "ok", p, cells, stamp)
FSeekForward(d) == IF Gt(d, N - pos) THEN FStep("SeekForward", d, "err", pos, cells, stamp)
                   ELSE FStep("SeekForward", d, "ok", pos + d, cells, stamp)
FSeekBackward(d) == IF Gt(d, pos) THEN FStep("SeekBackward", d, "err", pos, cells, stamp)
                    ELSE FStep("SeekBackward", d, "ok", pos - d, cells, stamp)
FixedNext == \E a \in Arg : FWrite(a) \/ FSeek(a) \/ FSeekForward(a) \/ FSeekBackward(a)

---------------------------------------------------------------------------------------------------
(* "grow": position always equals length; content is what the history implies.  Length is capped at N by *)
(* not offering steps that would exceed it (the real writer has no such cap).                             *)
GrowInit == pos = 0 /\ cells = <<>> /\ stamp = 1        \* whatever preallocation hint the writer was constructed with (the harness rotates through the constructors)
GWrite(k) == /\ stamp <= 3 /\ IsSmall(k) /\ Len(cells) + k <= N
             /\ FStep("Write", k, "ok", pos + k, cells \o [i \in 1..k |-> stamp], stamp + 1)
GSeekForward(d) == IF ~IsSmall(d) THEN FStep("SeekForward", d, "err", pos, cells, stamp)     \* beyond any buffer: refused
                   ELSE /\ Len(cells) + d <= N
                        /\ FStep("SeekForward", d, "ok", pos + d, cells \o [i \in 1..d |-> 0], stamp)
GSeekBackward(d) == IF Gt(d, Len(cells)) THEN FStep("SeekBackward", d, "err", pos, cells, stamp)
                    ELSE FStep("SeekBackward", d, "ok", pos - d, SubSeq(cells, 1, Len(cells) - d), stamp)
GSeek(p) == IF ~IsSmall(p) THEN FStep("Seek", p, "err", pos, cells, stamp)
            ELSE /\ p <= N
                 /\ FStep("Seek", p, "ok", p,
                          IF p <= Len(cells) THEN SubSeq(cells, 1, p) ELSE cells \o [i \in 1..(p - Len(cells)) |-> 0], stamp)
GrowNext == \E a \in Arg : GWrite(a) \/ GSeekForward(a) \/ GSeekBackward(a) \/ GSeek(a)

---------------------------------------------------------------------------------------------------
(* "file": a FileWriter on a new file.  The position is independent of the length: seeking changes nothing in the file, a write lands  *)
(* at the position, overwrites what is there and zero-fills a gap it leaves behind; nothing is ever truncated.  Seeks to positions no   *)
(* file can have (the HUGE class) are outside the model: the property says nothing about them.                                          *)
XPad(c, p) == IF p > Len(c) THEN c \o [i \in 1..(p - Len(c)) |-> 0] ELSE c
XWrite(k) == /\ stamp <= 3 /\ IsSmall(k) /\ pos + k <= N
             /\ LET base == IF k = 0 THEN cells ELSE XPad(cells, pos)
                    n2 == IF Len(base) > pos + k THEN Len(base) ELSE IF k = 0 THEN Len(base) ELSE pos + k
                IN FStep("Write", k, "ok", pos + k, [i \in 1..n2 |-> IF i > pos /\ i <= pos + k THEN stamp ELSE base[i]], stamp + 1)
XSeek(p) == IsSmall(p) /\ p <= N /\ FStep("Seek", p, "ok", p, cells, stamp)
WrapDistance(a) == a - NSmall - 4 + 1              \* the argument 2^64 - d of the WRAP class
XSeekForward(d) == IF IsSmall(d) THEN pos + d <= N /\ FStep("SeekForward", d, "ok", pos + d, cells, stamp)
                   ELSE ArgClass(d) = "wrap" /\ WrapDistance(d) <= pos /\ FStep("SeekForward", d, "err", pos, cells, stamp)     \* position + offset wraps: refused
XSeekBackward(d) == IF Gt(d, pos) THEN FStep("SeekBackward", d, "err", pos, cells, stamp)
                    ELSE FStep("SeekBackward", d, "ok", pos - d, cells, stamp)
FileNext == \E a \in Arg : XWrite(a) \/ XSeek(a) \/ XSeekForward(a) \/ XSeekBackward(a)

---------------------------------------------------------------------------------------------------
Init == IF Machine = "fixed" THEN FixedInit ELSE GrowInit
Next == IF Machine = "fixed" THEN FixedNext ELSE IF Machine = "file" THEN FileNext ELSE GrowNext
Spec == Init /\ [][Next]_vars

PosInBounds == IF Machine = "fixed" THEN pos \in 0..N /\ Len(cells) = N ELSE IF Machine = "file" THEN pos \in 0..N /\ Len(cells) <= N ELSE pos = Len(cells)
\* a failed step changes nothing; a write touches exactly the cells it covers
FrameCondition == [][ \/ pos' = pos /\ cells' = cells /\ stamp' = stamp
                      \/ /\ stamp' = stamp /\ (Machine \in {"fixed", "file"} => cells' = cells)
                      \/ /\ stamp' = stamp + 1
                         /\ \A i \in 1..Len(cells) : (i <= pos \/ i > pos' ) /\ i <= Len(cells') => cells'[i] = cells[i] ]_vars
===================================================================================================
