---- MODULE Rand ----
(* Deterministic pseudo-random choices for the seeded scenario families: a value is a function of (seed, stream, index),  *)
(* so a run is reproducible from VERIF_SEED and different seeds reach different inputs.  Arithmetic stays below 2^31.       *)
EXTENDS Naturals, Sequences
M1(x) == ((x % 65521) * 31337 + 1) % 65521
M2(x) == ((x % 251) * 257 + (x \div 251) * 7 + x) % 65521
M3(x) == ((x % 509) * 127 + (x \div 509) * 311 + 13) % 65521
R(seed, stream, i) == M3(M1(M2(M1(seed * 31 + stream * 977 + i * 7919 + 1)) + M3(i * 131 + stream * 17)))
\* a number in 0..(n-1)
Below(seed, stream, i, n) == R(seed, stream, i) % n
\* an element of a non-empty sequence
Pick(seed, stream, i, seq) == seq[Below(seed, stream, i, Len(seq)) + 1]
\* a sequence of length len drawn from seq
Draw(seed, stream, len, seq) == [i \in 1..len |-> Pick(seed, stream, i, seq)]
====
