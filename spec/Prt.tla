---- MODULE Prt ----
(* OP2_ART.PRT sprite metadata: palettes, image metadata, animations.                              *)
EXTENDS Naturals, Sequences, FiniteSets, TLC, Json, Bytes
TagCPAL == <<67, 80, 65, 76>>
TagPPAL == <<80, 80, 65, 76>>
TagHead == <<104, 101, 97, 100>>
TagDat  == <<100, 97, 116, 97>>
\* logical value:
\*  [palettes : Seq(Seq(<<r,g,b,a>>) of 256), images : Seq([scan, off, h, w, type, pal]),
\*   anims : Seq([u1 : 4 bytes, rect : 16 bytes, disp : 8 bytes, u2 : 4 bytes, frames : Seq(frame), unk : Seq(16 bytes)]),
\*   unknownCount]
\*  frame = [n1, o1 \in 0..1, n2, o2 \in 0..1, opt : <<4 bytes>>, layers : Seq(8 bytes)]
Bgr(c) == <<c[3], c[2], c[1], c[4]>>
PaletteHeaderCanon == TagPPAL \o LE32(1048) \o TagHead \o LE32(4) \o LE32(1) \o TagDat \o LE32(1024)
\* a non-canonical but consistent header: overall = 8 + (hl + 4) + 4 + (dl + 4)
PaletteHeaderWith(hl, cnt, dl) == TagPPAL \o LE32(8 + hl + 4 + 4 + dl + 4) \o TagHead \o LE32(hl) \o LE32(cnt) \o TagDat \o LE32(dl)
PaletteBytes(p) == Flatten([i \in 1..256 |-> Bgr(p[i])])
ImageBytes(im) == LE32(im.scan) \o LE32(im.off) \o LE32(im.h) \o LE32(im.w) \o LE16(im.type) \o LE16(im.pal)
FrameBytes(f) == << f.n1 + 128 * f.o1, f.n2 + 128 * f.o2 >>
                 \o (IF f.o1 = 1 THEN <<f.opt[1], f.opt[2]>> ELSE <<>>)
                 \o (IF f.o2 = 1 THEN <<f.opt[3], f.opt[4]>> ELSE <<>>)
                 \o Flatten(f.layers)
AnimBytes(a) == a.u1 \o a.rect \o a.disp \o a.u2 \o LE32(Len(a.frames))
                \o Flatten([i \in 1..Len(a.frames) |-> FrameBytes(a.frames[i])])
                \o LE32(Len(a.unk)) \o Flatten(a.unk)
RECURSIVE SumSeq(_)
SumSeq(s) == IF s = <<>> THEN 0 ELSE Head(s) + SumSeq(Tail(s))
FrameTotal(v) == SumSeq([i \in 1..Len(v.anims) |-> Len(v.anims[i].frames)])
LayerTotal(v) == SumSeq([i \in 1..Len(v.anims) |-> SumSeq([j \in 1..Len(v.anims[i].frames) |-> Len(v.anims[i].frames[j].layers)])])
EncodeWith(v, palHdr) ==
  TagCPAL \o LE32(Len(v.palettes))
  \o Flatten([i \in 1..Len(v.palettes) |-> palHdr \o PaletteBytes(v.palettes[i])])
  \o LE32(Len(v.images)) \o Flatten([i \in 1..Len(v.images) |-> ImageBytes(v.images[i])])
  \o LE32(Len(v.anims)) \o LE32(FrameTotal(v)) \o LE32(LayerTotal(v)) \o LE32(v.unknownCount)
  \o Flatten([i \in 1..Len(v.anims) |-> AnimBytes(v.anims[i])])
Encode(v) == EncodeWith(v, PaletteHeaderCanon)
\* the same bytes with the header's frame and layer totals replaced (ill-formed unless they are the real totals)
EncodeTotals(v, ft, lt) ==
  TagCPAL \o LE32(Len(v.palettes))
  \o Flatten([i \in 1..Len(v.palettes) |-> PaletteHeaderCanon \o PaletteBytes(v.palettes[i])])
  \o LE32(Len(v.images)) \o Flatten([i \in 1..Len(v.images) |-> ImageBytes(v.images[i])])
  \o LE32(Len(v.anims)) \o LE32(ft) \o LE32(lt) \o LE32(v.unknownCount)
  \o Flatten([i \in 1..Len(v.anims) |-> AnimBytes(v.anims[i])])
\* cross-field rules
RoundUp4(w) == ((w + 3) \div 4) * 4
RulesHold(v) == /\ \A i \in 1..Len(v.images) : v.images[i].pal < Len(v.palettes) /\ v.images[i].scan = RoundUp4(v.images[i].w)
                /\ \A i \in 1..Len(v.anims) : \A j \in 1..Len(v.anims[i].frames) :
                       v.anims[i].frames[j].n1 = Len(v.anims[i].frames[j].layers)
\* sprite extraction is defined for image indices below the image count only
ImageIndexOk(v, i) == i < Len(v.images)
====
