---- MODULE MC_Map ----
(* Bounded instance for C06 (round trip, normalisation, edits) and C16 (addressing, tile fields). *)
EXTENDS MapFile, Rand
CONSTANTS Tier, Seed, NRand
VARIABLES fam, par
vars == <<fam, par>>
TilePool == << <<0,0,0,0>>, <<255,255,255,255>>, <<21,0,0,16>>, <<31,224,255,239>>, <<1,2,3,4>>, <<32,1,0,0>> >>
Tiles(n, seed) == [i \in 1..n |-> TilePool[((i + seed) % Len(TilePool)) + 1]]
Clip(seed) == [i \in 1..16 |-> (seed * 17 + i * 3) % 256]
SrcPool == << [name |-> <<119,101,108,108,48,48,48,49>>, n |-> <<200,0,0,0>>], [name |-> <<>>, n |-> <<0,0,0,0>>],
              [name |-> <<97>>, n |-> <<0,0,0,0>>], [name |-> <<98,99>>, n |-> <<1,0,0,0>>] >>
MapPool == << <<1,0,2,0,3,0,4,0>>, <<5,0,6,0,7,0,8,0>> >>
GrpPool == << [w |-> 2, h |-> 1, idx |-> << <<1,0,0,0>>, <<2,0,0,0>> >>, name |-> <<103>>], [w |-> 0, h |-> 3, idx |-> <<>>, name |-> <<>>],
              [w |-> 1, h |-> 1, idx |-> << <<9,0,0,0>> >>, name |-> <<103,104>>] >>
Take(pool, k) == [i \in 1..k |-> pool[((i - 1) % Len(pool)) + 1]]
MakeMap(lg, h, ns, nm, nt, ng, seed) ==
  [ver |-> 4112 + (seed % 3), saved |-> (seed % 2 = 1), lg |-> lg, h |-> h, tiles |-> Tiles(h * Pow2(lg), seed), clip |-> Clip(seed),
   sources |-> Take(SrcPool, ns), mappings |-> Take(MapPool, nm), terrains |-> [i \in 1..nt |-> 10 + i], groups |-> Take(GrpPool, ng)]
SavedWords == << <<0,0,0,0>>, <<1,0,0,0>>, <<2,0,0,0>>, <<255,255,255,255>> >>
RoundTrip(m, sw, unk, trail) ==
  [op |-> "map_roundtrip", input |-> EncodeWith(m, sw, unk, trail), canon |-> Encode([m EXCEPT !.saved = (sw # <<0,0,0,0>>)]),
   w |-> Width(m), h |-> m.h, ver |-> m.ver, saved |-> (sw # <<0,0,0,0>>), tiles |-> TileCount(m),
   nsrc |-> Len(m.sources), nmap |-> Len(m.mappings), nter |-> Len(m.terrains), ngrp |-> Len(m.groups)]
\* edit sequences on a 64-wide map; after[i] is the serialisation after the i-th edit (refused edits change nothing)
Cell(c, x, y) == [k |-> "cell", c |-> c, x |-> x, y |-> y]
Lava(v, x, y) == [k |-> "lava", v |-> v, x |-> x, y |-> y]
Ver(v) == [k |-> "ver", v |-> v]
TrimE == [k |-> "trim"]
ApplyEdit(m, e) == IF e.k = "cell" THEN (IF e.c <= 31 THEN SetCellType(m, e.c, e.x, e.y) ELSE m)
                   ELSE IF e.k = "lava" THEN SetLavaPossible(m, e.v, e.x, e.y)
                   ELSE IF e.k = "ver" THEN SetVersionTag(m, e.v) ELSE Trim(m)
RECURSIVE Afters(_, _)
Afters(m, es) == IF es = <<>> THEN <<>> ELSE LET m2 == ApplyEdit(m, Head(es)) IN << Encode(m2) >> \o Afters(m2, Tail(es))
EditPool == << Cell(21, 33, 1), Cell(0, 0, 0), Cell(31, 63, 1), Cell(32, 1, 1), Cell(9999, 2, 0), Lava(1, 0, 0), Lava(0, 32, 1), Ver(4200), Ver(4112), TrimE >>
\* a map whose tileset sources have unused slots (empty name, or zero tiles) in front of and between several used ones
TrimMap == [MakeMap(6, 2, 0, 2, 1, 1, 5) EXCEPT !.sources = << [name |-> <<>>, n |-> <<0,0,0,0>>], [name |-> <<119,49>>, n |-> <<9,0,0,0>>], [name |-> <<119,50>>, n |-> <<1,0,0,0>>],
                                                                [name |-> <<120>>, n |-> <<0,0,0,0>>], [name |-> <<119,51>>, n |-> <<2,0,0,0>>], [name |-> <<>>, n |-> <<0,0,0,0>>], [name |-> <<119,52>>, n |-> <<7,0,0,0>>] >>]
Edits(m, es) == [op |-> "map_edits", input |-> Encode(m), edits |-> es, refused |-> [i \in 1..Len(es) |-> es[i].k = "cell" /\ es[i].c > 31], after |-> Afters(m, es)]
\* C16: addressing probes and field extraction
Probe(lg, h) == LET w == Pow2(lg) IN
  [op |-> "map_probe", lg |-> lg, h |-> h,
   \* tile i of the probe map refers to mapping entry i % 2048, and mapping entry k names tileset ProbeMapping(k)[1], image ProbeMapping(k)[2]
   probes |-> {[x |-> x, y |-> y, idx |-> TileIndex(x, y, h), ts |-> ProbeMapping(TileIndex(x, y, h) % 2048)[1], img |-> ProbeMapping(TileIndex(x, y, h) % 2048)[2]] :
                 x \in {0, 31, 32 % w, 33 % w, w - 32, w - 1}, y \in {0, 1 % h, h \div 2, h - 1}}]
ProbeHeights == IF Tier = "thorough" THEN 1..256 ELSE {1, 2, 3, 5, 6, 7, 100, 255, 256}
SaveCase(m, ub) == [op |-> "save_equiv", save |-> SavedGame(m, ub), map |-> Encode([m EXCEPT !.saved = TRUE, !.groups = <<>>])]
Seqs(S, n) == [1..n -> S]
Emit(id, steps) == PrintT("S|" \o ToJson([id |-> id, steps |-> steps]))
\* ---- seeded random maps: every field arbitrary within the reader's acceptance conditions --------------------------------------------
RS(r) == Seed * 503 + r
RB(r, st, i) == Below(RS(r), st, i, 256)
RBytes(r, st, base, n) == [j \in 1..n |-> RB(r, st, base + j)]
RNameChars == << 97, 122, 65, 48, 57, 95, 46, 32, 255, 1 >>
RMap(r) == LET lg == Below(RS(r), 1, 0, 7)  h == Below(RS(r), 2, 0, 4) IN
  [ver |-> 4112 + Below(RS(r), 3, 0, 5000), saved |-> Below(RS(r), 4, 0, 2) = 1, lg |-> lg, h |-> h,
   tiles |-> [i \in 1..(h * Pow2(lg)) |-> RBytes(r, 10 + (i % 7), i * 4, 4)], clip |-> RBytes(r, 5, 0, 16),
   sources |-> [i \in 1..Below(RS(r), 6, 0, 6) |-> [name |-> Draw(RS(r), 20 + i, Below(RS(r), 7, i, 9), RNameChars),
                                                    n |-> IF Below(RS(r), 8, i, 3) = 0 THEN <<0, 0, 0, 0>> ELSE RBytes(r, 9, i * 4, 4)]],
   mappings |-> [i \in 1..Below(RS(r), 30, 0, 5) |-> RBytes(r, 31, i * 8, 8)], terrains |-> [i \in 1..Below(RS(r), 32, 0, 3) |-> 40 + i],
   groups |-> [i \in 1..Below(RS(r), 33, 0, 4) |-> LET gw == Below(RS(r), 34, i, 4)  gh == Below(RS(r), 35, i, 4) IN
                [w |-> gw, h |-> gh, idx |-> [k \in 1..(gw * gh) |-> RBytes(r, 36, i * 64 + k * 4, 4)], name |-> Draw(RS(r), 37 + i, Below(RS(r), 38, i, 7), RNameChars)]]]
\* ---- one TLC state per case; the map laws are INVARIANTs over the state's logical map ----------------------------------------------------
UnitBlocks == << UnitBlock(0, 0, 0, 0, 0, 0), UnitBlock(3, 5, 5, 120, 1, 2), UnitBlock(3, 5, 6, 120, 0, 3), UnitBlock(0, 1, 2, 77, 2, 0) >>
Init == \/ fam = "rt" /\ par \in {<<lg, h, ns, nm, nt, ng>> : lg \in {0, 1, 2, 5}, h \in 0..2, ns \in 0..3, nm \in 0..2, nt \in 0..1, ng \in 0..2}
        \/ fam = "rand" /\ par \in {<<r>> : r \in 1..NRand}
        \/ fam = "rt10" /\ par = <<>>
        \/ fam = "ed" /\ \E n \in 1..(IF Tier = "thorough" THEN 3 ELSE 2) : par \in Seqs(1..Len(EditPool), n)
        \/ fam = "trim" /\ par \in {<<>>, << Cell(3, 1, 1) >>, << Lava(1, 33, 0) >>}
        \/ fam = "probe" /\ par \in {<<lg, h>> : lg \in 5..10, h \in ProbeHeights}
        \/ fam = "save" /\ par \in {<<k>> : k \in 1..Len(UnitBlocks)}
        \/ fam = "save-rand" /\ par \in {<<r>> : r \in 1..(NRand \div 8)}
Next == UNCHANGED vars
Spec == Init /\ [][Next]_vars
RtSeed == par[1] + 2 * par[2] + 3 * par[3] + 5 * par[4] + 7 * par[5] + 11 * par[6]
Value == CASE fam = "rt" -> MakeMap(par[1], par[2], par[3], par[4], par[5], par[6], RtSeed)
           [] fam = "rand" -> RMap(par[1])
           [] fam = "rt10" -> MakeMap(10, 1, 1, 1, 0, 0, 4)
           [] fam = "ed" -> MakeMap(6, 2, 3, 2, 1, 1, 5)
           [] fam = "trim" -> TrimMap
           [] fam = "save" -> MakeMap(5, 2, 2, 2, 1, 0, 3)
           [] fam = "save-rand" -> [RMap(1000 + par[1]) EXCEPT !.groups = <<>>]
           [] OTHER -> MakeMap(5, 1, 0, 0, 0, 0, 1)
\* model-level laws
ValueAcceptable == Acceptable(Value)
TileCountIsProduct == Len(Value.tiles) = Value.h * Width(Value)
EncodeLength == SegsLen(Encode(Value)) = SegsLen(EncodeWith(Value, <<0,0,0,0>>, <<0,0,0,0>>, <<>>))
NormalFormIdempotent == Encode([Value EXCEPT !.saved = Value.saved]) = Encode(Value)
TrimLaws == LET t == Trim(Value) IN Trim(t) = t /\ \A i \in 1..Len(t.sources) : ~IsEmptySource(t.sources[i])
ProbeBijective == fam = "probe" /\ par[1] <= 7 /\ par[2] <= 8 => Bijective(Pow2(par[1]), par[2])
Export ==
  CASE fam = "rt" -> Emit(<<"rt", par>>, << RoundTrip(Value, SavedWords[(RtSeed % 4) + 1], <<RtSeed % 256, 1, 2, 3>>, IF RtSeed % 2 = 0 THEN <<>> ELSE <<9, 9, 9>>) >>)
    [] fam = "rand" -> LET r == par[1] IN
         Emit(<<"rand", Seed, r>>, << RoundTrip(Value, IF Value.saved THEN Pick(RS(r), 40, 0, << <<1,0,0,0>>, <<2,0,0,0>>, <<255,255,255,255>>, <<0,1,0,0>> >>) ELSE <<0,0,0,0>>,
                                                RBytes(r, 41, 0, 4), RBytes(r, 42, 0, Below(RS(r), 43, 0, 4))) >>)
    [] fam = "rt10" -> Emit(<<"rt10">>, << RoundTrip(Value, <<1,0,0,0>>, <<0,0,0,0>>, <<>>) >>)
    [] fam = "ed" -> Emit(<<"ed", par>>, << Edits(Value, [i \in 1..Len(par) |-> EditPool[par[i]]]) >>)
    [] fam = "trim" -> Emit(<<"trim", par>>, << Edits(Value, par \o << TrimE, TrimE, Ver(4115) >>) >>)
    [] fam = "probe" -> Emit(<<"probe", par>>, << Probe(par[1], par[2]) >>)
    [] fam = "save" -> Emit(<<"save", par>>, << SaveCase(Value, UnitBlocks[par[1]]) >>)
    [] OTHER -> Emit(<<"save-rand", Seed, par>>, << SaveCase(Value, IF par[1] % 2 = 0 THEN UnitBlock(3, 5, 5, 120, 1, 2) ELSE UnitBlock(0, 7, 6, 120, 0, 3)) >>)
====
