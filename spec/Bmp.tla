---- MODULE Bmp ----
(* Indexed Windows bitmaps (1, 4, 8 bits per pixel) as BitmapFile reads and writes them.          *)
EXTENDS Integers, Sequences, FiniteSets, TLC, Json, Bytes
Depths == {1, 4, 8}
RECURSIVE Pow2(_)
Pow2(k) == IF k = 0 THEN 1 ELSE 2 * Pow2(k - 1)
MaxPalette(bc) == Pow2(bc)
RowBytes(w, bc) == (w * bc + 7) \div 8
Pitch(w, bc) == Up4(RowBytes(w, bc))
Abs(h) == IF h < 0 THEN -h ELSE h
\* two's complement LE32 of a small (possibly negative) integer
LE32s(v) == IF v >= 0 THEN LE32(v) ELSE LET u == -v - 1 IN   \* ~u
            << 255 - (u % 256), 255 - ((u \div 256) % 256), 255 - ((u \div 65536) % 256), 255 - ((u \div 16777216) % 256) >>
\* a bitmap value: [w, h, bc, palette : Seq(<<r,g,b,a>>), rows : Seq(Seq(byte))]  each row has Pitch bytes
FileHeader(size, off) == <<66, 77>> \o LE32(size) \o LE16(0) \o LE16(0) \o LE32(off)
InfoHeader(w, h, bc, used) == LE32(40) \o LE32s(w) \o LE32s(h) \o LE16(1) \o LE16(bc) \o LE32(0) \o LE32(0)
                              \o LE32(0) \o LE32(0) \o LE32(used) \o LE32(0)
\* image with an explicit used-colour count in the header (what foreign files may contain)
ImageWith(b, used) ==
  LET pal == Flatten(b.palette)
      off == 14 + 40 + Len(pal)
      px  == Flatten(b.rows)
  IN FileHeader(off + Len(px), off) \o InfoHeader(b.w, b.h, b.bc, used) \o pal \o px
\* what the writer emits: headers regenerated (used = 0), palette padded to full length with black,
\* rows with zero padding
ZeroPadRow(r, w, bc) == SubSeq(r, 1, RowBytes(w, bc)) \o Zeros(Pitch(w, bc) - RowBytes(w, bc))
FullPalette(b) == b.palette \o [i \in 1..(MaxPalette(b.bc) - Len(b.palette)) |-> <<0, 0, 0, 0>>]
Canon(b) == [b EXCEPT !.palette = FullPalette(b), !.rows = [i \in 1..Len(b.rows) |-> ZeroPadRow(b.rows[i], b.w, b.bc)]]
Encode(b) == ImageWith(Canon(b), 0)
\* acceptance of a decoded header
Valid(b) == /\ b.bc \in Depths /\ b.w >= 0
            /\ Len(b.palette) <= MaxPalette(b.bc)
            /\ Len(b.rows) = Abs(b.h) /\ \A i \in 1..Len(b.rows) : Len(b.rows[i]) = Pitch(b.w, b.bc)
Flip(b) == [b EXCEPT !.h = -b.h, !.rows = [i \in 1..Len(b.rows) |-> b.rows[Len(b.rows) + 1 - i]]]
FlipTwice == \A b \in {} : Flip(Flip(b)) = b
====
