---- MODULE Trace_Determinism ----
(* C18: serialised bytes and parsed values are a function of the logical input.  Each execution environment   *)
(* (compiler, heap fill, stack fill, address-space layout) logs  {"e":"Observe","sc":scenario,"env":..,"d":digest}; *)
(* the first observation of a scenario fixes its digest, every later observation must reproduce it.            *)
EXTENDS Naturals, Sequences, TLC, Json, IOUtils
Log == ndJsonDeserialize(IOEnv.TRACE)
VARIABLES l, seen
vars == <<l, seen>>
Ev == Log[l]
Init == l = 1 /\ seen = <<>>
Reset == Ev.e = "Reset" /\ UNCHANGED seen
Observe == /\ Ev.e = "Observe"
           /\ IF Ev.sc \in DOMAIN seen THEN Ev.d = seen[Ev.sc] /\ UNCHANGED seen
              ELSE seen' = seen @@ (Ev.sc :> Ev.d)
Next == l <= Len(Log) /\ l' = l + 1 /\ (Reset \/ Observe)
Spec == Init /\ [][Next]_vars
Accepted == TLCGet("stats").diameter - 1 = Len(Log)
====
