---- MODULE MC_XFs ----
EXTENDS XFs
====
