---- MODULE XFs ----
(***************************************************************************************************)
(* Beyond the listed properties: the file-system helpers of XFile (NewDirectory, DeletePath,         *)
(* RenameFile, PathExists, IsFile, IsDirectory, Dir, DirFiles) and FileWriter's creation of a file,   *)
(* as a state machine over a small tree of paths under one sandbox directory.  The semantics is that  *)
(* of POSIX mkdir / rename / recursive removal, which the helpers delegate to.  Every action emits    *)
(* one labelled transition; the conformance harness walks the relation on a real directory and        *)
(* compares the kind of every path of the universe, and the directory listings, after each step.      *)
(***************************************************************************************************)
EXTENDS Naturals, Sequences, FiniteSets, TLC, Json
\* the universe: index -> [name, parent index (0 = the sandbox root)]
U == << [n |-> "f", up |-> 0], [n |-> "g", up |-> 0], [n |-> "d", up |-> 0], [n |-> "d/f", up |-> 3], [n |-> "e", up |-> 0], [n |-> "e/f", up |-> 5] >>
Ix == 1..Len(U)
VARIABLE fs          \* Ix -> "none" | "file" | "dir"
Init == fs = [i \in Ix |-> "none"]
TypeOK == \A i \in Ix : fs[i] \in {"none", "file", "dir"} /\ (fs[i] # "none" /\ U[i].up # 0 => fs[U[i].up] = "dir")
ParentOk(i) == U[i].up = 0 \/ fs[U[i].up] = "dir"
Kids(i) == {k \in Ix : U[k].up = i}
HasKids(i) == \E k \in Kids(i) : fs[k] # "none"
Leaf(k) == IF k = 4 \/ k = 6 THEN "f" ELSE ""            \* the last component of the nested paths
\* the child of directory j that has the same last component as child k of directory i (0 if the universe has none)
Twin(k, j) == IF \E m \in Kids(j) : Leaf(m) = Leaf(k) THEN CHOOSE m \in Kids(j) : Leaf(m) = Leaf(k) ELSE 0
Enc(f) == [i \in Ix |-> f[i]]
Emit(op, a, b, res, to) == PrintT("T|" \o ToJson([f |-> Enc(fs), op |-> op, a |-> U[a].n, b |-> IF b = 0 THEN "" ELSE U[b].n, res |-> res, t |-> Enc(to)]))
Step(op, a, b, res, to) == fs' = to /\ Emit(op, a, b, res, to)
Fail(op, a, b) == Step(op, a, b, "err", fs)
\* create_directory: an existing directory is left alone without an error; anything else in the way, or a missing parent, is an error
NewDirectory(i) == IF fs[i] = "dir" THEN Step("NewDirectory", i, 0, "ok", fs)
                   ELSE IF fs[i] = "file" \/ ~ParentOk(i) THEN Fail("NewDirectory", i, 0)
                   ELSE Step("NewDirectory", i, 0, "ok", [fs EXCEPT ![i] = "dir"])
\* a FileWriter with its default flags creates or truncates a regular file - and first creates the directory it lies in if that is missing
WriteFile(i) == IF fs[i] = "dir" \/ (U[i].up # 0 /\ fs[U[i].up] = "file") THEN Fail("WriteFile", i, 0)
                ELSE Step("WriteFile", i, 0, "ok", [k \in Ix |-> IF k = i THEN "file" ELSE IF k = U[i].up THEN "dir" ELSE fs[k]])
\* remove_all: removing nothing is not an error; a directory goes with everything below it
\* (a path that leads through a regular file is an error, as for every other call)
DeletePath(i) == IF U[i].up # 0 /\ fs[U[i].up] = "file" THEN Fail("DeletePath", i, 0)
                 ELSE Step("DeletePath", i, 0, "ok", [k \in Ix |-> IF k = i \/ U[k].up = i THEN "none" ELSE fs[k]])
\* rename(2)
Rename(a, b) ==
  IF a = b THEN (IF fs[a] = "none" THEN Fail("RenameFile", a, b) ELSE Step("RenameFile", a, b, "ok", fs))
  ELSE IF fs[a] = "none" \/ ~ParentOk(b) THEN Fail("RenameFile", a, b)
  ELSE IF U[b].up = a THEN Fail("RenameFile", a, b)                                     \* into its own subtree (or through a file)
  ELSE IF fs[a] = "file" THEN
         (IF fs[b] = "dir" THEN Fail("RenameFile", a, b)
          ELSE Step("RenameFile", a, b, "ok", [fs EXCEPT ![a] = "none", ![b] = "file"]))
  ELSE \* a directory
       IF fs[b] = "file" \/ (fs[b] = "dir" /\ HasKids(b)) THEN Fail("RenameFile", a, b)
       ELSE \* only offered when every existing child of a has a twin below b in the universe
            /\ \A k \in Kids(a) : fs[k] # "none" => Twin(k, b) # 0
            /\ U[a].up # b                                                               \* (renaming d/f onto d is covered by the file case)
            /\ Step("RenameFile", a, b, "ok",
                    [m \in Ix |-> IF m = a \/ U[m].up = a THEN "none"
                                  ELSE IF m = b THEN "dir"
                                  ELSE IF U[m].up = b THEN (IF \E k \in Kids(a) : Twin(k, b) = m THEN fs[CHOOSE k \in Kids(a) : Twin(k, b) = m] ELSE "none")
                                  ELSE fs[m]])
Next == \E i \in Ix : NewDirectory(i) \/ WriteFile(i) \/ DeletePath(i) \/ \E j \in Ix : Rename(i, j)
Spec == Init /\ [][Next]_fs
====
