---- MODULE CopyLoop ----
(***************************************************************************************************)
(* Writer::Write(Reader&) as the code structures it:                                                *)
(*     repeat  n := reader.ReadPartial(buffer, B);  writer.Write(buffer, n)  until n = 0             *)
(* over the reader contract of module StreamReader (a partial read delivers min(B, remaining) and     *)
(* advances by what it delivered).  TLC checks, for every source length, chunk size and start         *)
(* position, that the loop terminates and that the destination receives exactly src[start..len).      *)
(* Every terminated behaviour is exported as one copy scenario for the conformance harness, which      *)
(* runs it on every reader backend and with the template's real chunk sizes.                           *)
(***************************************************************************************************)
EXTENDS Naturals, Sequences, TLC, Json
CONSTANTS MaxLen, MaxChunk
VARIABLES len, chunk, pos, dest, pc, start, reads
vars == <<len, chunk, pos, dest, pc, start, reads>>
Init == /\ len \in 0..MaxLen /\ chunk \in 1..MaxChunk /\ pos \in 0..len /\ start = pos
        /\ dest = <<>> /\ pc = "read" /\ reads = 0
Delivered(k) == IF k > len - pos THEN len - pos ELSE k
Step == /\ pc = "read"
        /\ LET n == Delivered(chunk) IN
           /\ dest' = dest \o [i \in 1..n |-> pos + i]                  \* byte identities = source offsets (1-based)
           /\ pos' = pos + n
           /\ pc' = IF n = 0 THEN "done" ELSE "read"
           /\ reads' = reads + 1
        /\ UNCHANGED <<len, chunk, start>>
Done == pc = "done" /\ UNCHANGED vars
Spec == Init /\ [][Step]_vars /\ WF_vars(Step)
PosInBounds == pos <= len
CopiesExactlyTheRest == pc = "done" => dest = [i \in 1..(len - start) |-> start + i]
OnlySourceBytes == \A i \in 1..Len(dest) : dest[i] \in 1..len
\* the number of partial reads is what the loop structure implies: one per full or partial chunk, plus the final empty one
ReadCount == pc = "done" => reads = ((len - start) + chunk - 1) \div chunk + 1
Terminates == <>(pc = "done")
\* the counters follow the abstract machine whose inductive invariant Apalache discharges for every length, start and chunk size
Abs == INSTANCE CopyBounds WITH written <- Len(dest), done <- (pc = "done")
RefinesBounds == Abs!Spec
Export == pc = "done" => PrintT("S|" \o ToJson([id |-> <<len, chunk, start>>, steps |-> << [op |-> "copy_loop", len |-> len, chunk |-> chunk, start |-> start,
                                                  dest |-> dest, reads |-> reads] >>]))
====
