---- MODULE MC_Limits ----
(* C20 for VOL and CLM creation: which size vectors must be refused because a quantity does not fit its on-disk  *)
(* field.  Sizes are Wide numbers (16-bit limbs); the decision is made over the naturals they denote.            *)
EXTENDS Wide, Bytes, TLC, Json, FiniteSets
VARIABLES done
Two31m1 == << 65535, 32767, 0, 0 >>
OneGiB == << 0, 16384, 0, 0 >>
\* exact edges of the offset rules (the first size that must be refused in its vector):
\*   c1  = 2^32 - 76     one CLM member: 60 + 16 + c1 = 2^32
\*   c2  = 2^32 - 97     CLM members <<c2, 5>>: 60 + 32 + c2 + 5 = 2^32
\*   v5  = 2^30 - 155    VOL members <<1 GiB, 1 GiB, 1 GiB, v5, 5>>: the fifth block would start at 120 + 32 + 3 * 2^30 + Up4(v5) = 2^32
ClmEdge1 == << 65460, 65535, 0, 0 >>
ClmEdge2 == << 65439, 65535, 0, 0 >>
VolEdge5 == << 65381, 16383, 0, 0 >>
Sizes == [ s0 |-> W(0), s5 |-> W(5), g1 |-> OneGiB, m31m1 |-> Two31m1, m31 |-> Two31, m32m1 |-> U32Max, m32 |-> Two32, c1 |-> ClmEdge1, c2 |-> ClmEdge2, v5 |-> VolEdge5 ]
Dec == [ s0 |-> "0", s5 |-> "5", g1 |-> "1073741824", m31m1 |-> "2147483647", m31 |-> "2147483648", m32m1 |-> "4294967295", m32 |-> "4294967296",
         c1 |-> "4294967220", c2 |-> "4294967199", v5 |-> "1073741669" ]
EdgesAreEdges == /\ WAdd(W(76), ClmEdge1) = Two32 /\ WAdd(W(97), ClmEdge2) = Two32 /\ WAdd(W(155), VolEdge5) = OneGiB
\* VOL with one-letter names a, b, c, ...: header = 8 + 24 + Up4(4 + 2n) + Up4(14n)
Up4I(n) == n + ((4 - (n % 4)) % 4)
FirstBlock(n) == 32 + Up4I(4 + 2 * n) + Up4I(14 * n)
RECURSIVE BlockOffW(_, _)
BlockOffW(szs, i) == IF i = 1 THEN W(FirstBlock(Len(szs))) ELSE WAdd(WAdd(BlockOffW(szs, i - 1), W(8)), WUp4(szs[i - 1]))
VolRefused(szs) == \/ \E i \in 1..Len(szs) : ~FitsU31(szs[i])              \* block length field has 31 bits
                   \/ \E i \in 1..Len(szs) : ~FitsU32(BlockOffW(szs, i))   \* index stores 32-bit block offsets
\* CLM: data offsets are 32-bit: offset_i + length_i must not exceed 2^32 - 1
RECURSIVE ClmOffW(_, _)
ClmOffW(szs, i) == IF i = 1 THEN W(60 + 16 * Len(szs)) ELSE WAdd(ClmOffW(szs, i - 1), szs[i - 1])
ClmRefused(szs) == \E i \in 1..Len(szs) : ~FitsU32(szs[i]) \/ ~FitsU32(WAdd(ClmOffW(szs, i), szs[i]))
Keys == DOMAIN Sizes
Vec(ks) == [i \in 1..Len(ks) |-> Sizes[ks[i]]]
Emit(kind, ks, refused) == PrintT("S|" \o ToJson([id |-> <<kind, ks>>, steps |-> << [op |-> kind, sizes |-> [i \in 1..Len(ks) |-> Dec[ks[i]]],
                                                     expect |-> IF refused THEN "refuse" ELSE "accept"] >>]))
Vectors == { <<"m31">>, <<"m32m1">>, <<"m32">>, <<"m31m1">>, <<"s5", "m31">>, <<"m31", "s0">>, <<"m31m1", "m31m1">>, <<"m31m1", "m31m1", "s5">>,
             <<"g1", "g1", "g1", "g1", "s5">>, <<"g1", "g1", "g1", "s5">>, <<"m31m1", "g1", "g1", "s0">>, <<"s5", "s0">> }
\* ---- size-prefixed containers: the count must fit the prefix type, otherwise the write is refused and nothing is emitted ----
PrefixTypes == << [name |-> "u8", max |-> 255, w |-> 1], [name |-> "i8", max |-> 127, w |-> 1],
                  [name |-> "u16", max |-> 65535, w |-> 2], [name |-> "i16", max |-> 32767, w |-> 2], [name |-> "u32", max |-> 2147483647, w |-> 4], [name |-> "i32", max |-> 2147483647, w |-> 4] >>
PrefixCounts(T) == IF T.w = 4 THEN {0, 1, 255, 256, 65536, 70001} ELSE {0, 1, T.max - 1, T.max, T.max + 1, T.max + 2, 2 * T.max + 1, 2 * T.max + 2}
PrefixFits(T, n) == n <= T.max
LEw(n, w) == IF w = 1 THEN <<n % 256>> ELSE IF w = 2 THEN LE16(n) ELSE LE32(n)
PrefixCase(T, n) == [op |-> "prefixed_write", prefix |-> T.name, count |-> n, expect |-> IF PrefixFits(T, n) THEN "ok" ELSE "refuse",
                     segs |-> IF PrefixFits(T, n) THEN << Lit(LEw(n, T.w)), Blob(7, 0, n) >> ELSE <<>>]
NoWrappedPrefix == \A i \in 1..Len(PrefixTypes) : \A n \in PrefixCounts(PrefixTypes[i]) :
                     PrefixFits(PrefixTypes[i], n) => n < (IF PrefixTypes[i].w = 1 THEN 256 ELSE IF PrefixTypes[i].w = 2 THEN 65536 ELSE 2147483647) 
\* ---- size-prefixed container reads: a negative or unsatisfiable count is refused; otherwise prefix + count bytes are consumed ----
\* (StreamReader.tla has the same rule on its small contents; here the stream is long enough for 2^bits + count bytes to exist,
\*  so a reader that lets a negative count wrap into a large positive one would succeed instead of refusing)
SignedTypes == << [name |-> "i8", w |-> 1, mod |-> 256, half |-> 128], [name |-> "i16", w |-> 2, mod |-> 65536, half |-> 32768] >>
PrefixReadCase(T, raw, follow) ==      \* raw: the stored prefix as an unsigned number; follow: bytes after the prefix
  LET neg == raw >= T.half
      ok == ~neg /\ raw <= follow
  IN [op |-> "prefixed_read", prefix |-> T.name, segs |-> << Lit(LEw(raw, T.w)), Blob(9, 0, follow) >>,
      expect |-> IF ok THEN "ok" ELSE "refuse", count |-> IF ok THEN raw ELSE 0, consumed |-> IF ok THEN T.w + raw ELSE 0]
\* ---- typed writes and typed reads are mutual inverses: fixed-size values and containers of them (C14) ----------------------------
TypedCase(w, vals) == [op |-> "typed_roundtrip", width |-> w, values |-> vals,
                       segs |-> << Lit(Flatten([i \in 1..Len(vals) |-> LEw(vals[i] % (IF w = 1 THEN 256 ELSE IF w = 2 THEN 65536 ELSE 2147483647), w)])) >>]
Init == done = FALSE
Next == /\ ~done /\ done' = TRUE
        \* ... and the same crossings FOLLOWED by small members: an offset that wrapped somewhere in the middle leaves the last offset small again
        /\ \A ks \in Vectors \cup { <<"g1", "g1", "g1", "v5", "s5">>, <<"m31m1", "m31m1", "s5", "s5">>, <<"m31m1", "m31m1", "s5", "s0", "s0">>, <<"g1", "g1", "g1", "g1", "s5", "s5">>,
                                    <<"g1", "g1", "g1", "v5", "s5", "s0">> } : Emit("vol_limit", ks, VolRefused(Vec(ks)))
        /\ Assert(VolRefused(Vec(<<"m31m1", "m31m1", "s5", "s5">>)) /\ VolRefused(Vec(<<"g1", "g1", "g1", "v5", "s5", "s0">>)), "a crossing in the middle must be refused")
        /\ \A ks \in Vectors \cup { <<"c1">>, <<"c2", "s5">>, <<"s5", "c2">>, <<"c2", "s5", "s5">>, <<"s5", "c2", "s0", "s5">> } : Emit("clm_limit", ks, ClmRefused(Vec(ks)))
        /\ Assert(EdgesAreEdges, "edge constants") /\ Assert(VolRefused(Vec(<<"g1", "g1", "g1", "v5", "s5">>)), "VOL edge must be refused")
        /\ Assert(ClmRefused(Vec(<<"c1">>)) /\ ClmRefused(Vec(<<"c2", "s5">>)) /\ ClmRefused(Vec(<<"s5", "c2">>)), "CLM edges must be refused")
        /\ \A i \in 1..Len(SignedTypes) : LET T == SignedTypes[i] IN
             \A raw \in {0, 1, T.half - 1, T.half, T.half + 1, T.mod - 2, T.mod - 1} : \A follow \in {0, raw, T.mod + 10} :
               PrintT("S|" \o ToJson([id |-> <<"prefix-read", T.name, raw, follow>>, steps |-> << PrefixReadCase(T, raw, follow) >>]))
        /\ \A w \in {1, 2, 4} : \A vals \in { <<>>, <<0>>, <<255>>, <<1, 2, 3>>, <<65535, 0, 258>>, <<16909060, 7>> } :
             (\A i \in 1..Len(vals) : vals[i] < (IF w = 1 THEN 256 ELSE IF w = 2 THEN 65536 ELSE 2147483647)) =>
               PrintT("S|" \o ToJson([id |-> <<"typed", w, vals>>, steps |-> << TypedCase(w, vals) >>]))
        /\ Assert(NoWrappedPrefix, "an accepted count would not fit its prefix")
        /\ \A i \in 1..Len(PrefixTypes) : \A n \in PrefixCounts(PrefixTypes[i]) :
             PrintT("S|" \o ToJson([id |-> <<"prefix", PrefixTypes[i].name, n>>, steps |-> << PrefixCase(PrefixTypes[i], n) >>]))
Spec == Init /\ [][Next]_done
====
