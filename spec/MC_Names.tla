---- MODULE MC_Names ----
(* Bounded instance for C19: the order relation on all strings up to MaxLen over a seven-letter alphabet,   *)
(* its laws checked by TLC, and the relation exported for pairwise comparison with the implementation.      *)
EXTENDS Names, Naturals, Sequences, FiniteSets, TLC, Json
CONSTANTS MaxLen
Alphabet == <<97, 65, 98, 95, 46, 47, 48>>          \* a A b _ . / 0
RECURSIVE Strs(_)
Strs(n) == IF n = 0 THEN {<<>>} ELSE Strs(n - 1) \cup {Append(s, Alphabet[i]) : s \in {t \in Strs(n - 1) : Len(t) = n - 1}, i \in 1..Len(Alphabet)}
U == Strs(MaxLen)
VARIABLES a, b, c
vars == <<a, b, c>>
\* every triple is a state; the laws are invariants, so TLC checks them in parallel
Init == a \in U /\ b \in U /\ c \in U
Next == UNCHANGED vars
Spec == Init /\ [][Next]_vars
Irreflexive == ~Less(a, a)
Asymmetric == Less(a, b) => ~Less(b, a)
Transitive == Less(a, b) /\ Less(b, c) => Less(a, c)
Incomparable(x, y) == ~Less(x, y) /\ ~Less(y, x)
IncomparabilityIsCIEqual == Incomparable(a, b) <=> CIEqual(a, b)
IncomparabilityTransitive == Incomparable(a, b) /\ Incomparable(b, c) => Incomparable(a, c)
\* powers of two as exponents (2^31 does not fit a TLC integer)
Pow2Exponents == 0..31
====
