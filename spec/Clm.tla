---- MODULE Clm ----
(* CLM ("clump") music archives and the RIFF/WAVE sources they are packed from.                  *)
EXTENDS Naturals, Sequences, FiniteSets, TLC, Json, Bytes, Names
Chars(s) == s   \* names are already code sequences
TagRIFF == <<82, 73, 70, 70>>
TagWAVE == <<87, 65, 86, 69>>
TagFmt  == <<102, 109, 116, 32>>
TagData == <<100, 97, 116, 97>>
TagLIST == <<76, 73, 83, 84>>
\* "OP2 Clump File Version 1.0" 0x1A 0 0 0 0 0   (32 bytes)
Version == <<79,80,50,32,67,108,117,109,112,32,70,105,108,101,32,86,101,114,115,105,111,110,32,49,46,48,26,0,0,0,0,0>>
Unknown6 == <<0, 0, 0, 0, 1, 0>>
\* wave format: [tag, ch, rate, abps, align, bits]  -> 16 bytes; cbSize (2 bytes, always written 0) makes 18
Fmt16(f) == LE16(f.tag) \o LE16(f.ch) \o LE32(f.rate) \o LE32(f.abps) \o LE16(f.align) \o LE16(f.bits)
Fmt18(f) == Fmt16(f) \o LE16(0)
DefaultFmt == [tag |-> 1, ch |-> 1, rate |-> 22050, abps |-> 44100, align |-> 2, bits |-> 16]
\* ---- a WAV source ---------------------------------------------------------------------------------
\* [name, fmt, fmtLen \in {16,18}, dataBlob, dataLen, pre, mid, post] ; pre/mid/post = sequences of even extra-chunk sizes
ExtraChunk(n) == << Lit(TagLIST \o LE32(n)), Zr(n) >>
RECURSIVE Extras(_)
Extras(ns) == IF ns = <<>> THEN <<>> ELSE ExtraChunk(Head(ns)) \o Extras(Tail(ns))
RECURSIVE SumExtra(_)
SumExtra(ns) == IF ns = <<>> THEN 0 ELSE 8 + Head(ns) + SumExtra(Tail(ns))
WavBodyLen(w) == 4 + SumExtra(w.pre) + 8 + w.fmtLen + SumExtra(w.mid) + 8 + w.dataLen + SumExtra(w.post)
WavImage(w) ==
  << Lit(TagRIFF \o LE32(WavBodyLen(w)) \o TagWAVE) >> \o Extras(w.pre)
  \o << Lit(TagFmt \o LE32(w.fmtLen) \o (IF w.fmtLen = 16 THEN Fmt16(w.fmt) ELSE Fmt18(w.fmt))) >>
  \o Extras(w.mid)
  \o << Lit(TagData \o LE32(w.dataLen)), Blob(w.dataBlob, 0, w.dataLen) >> \o Extras(w.post)
\* ---- the archive ------------------------------------------------------------------------------------
HeaderLen == 60
IndexLen(ws) == 16 * Len(ws)
RECURSIVE DataOff(_, _)
DataOff(ws, i) == IF i = 1 THEN HeaderLen + IndexLen(ws) ELSE DataOff(ws, i - 1) + ws[i - 1].dataLen
Name8(n) == n \o Zeros(8 - Len(n))
Entry(ws, i) == Name8(ws[i].name) \o LE32(DataOff(ws, i)) \o LE32(ws[i].dataLen)
ClmLayout(ws) ==
  << Lit(Version \o Fmt18(IF ws = <<>> THEN DefaultFmt ELSE ws[1].fmt) \o Unknown6 \o LE32(Len(ws))
         \o Flatten([i \in 1..Len(ws) |-> Entry(ws, i)])) >>
  \o [i \in 1..Len(ws) |-> Blob(ws[i].dataBlob, 0, ws[i].dataLen)]
ClmFileLen(ws) == IF ws = <<>> THEN HeaderLen ELSE DataOff(ws, Len(ws)) + ws[Len(ws)].dataLen
\* extracted member: canonical 46-byte header + data
CanonicalWav(f, blob, n) ==
  << Lit(TagRIFF \o LE32(38 + n) \o TagWAVE \o TagFmt \o LE32(18) \o Fmt18(f) \o TagData \o LE32(n)), Blob(blob, 0, n) >>
\* creation is refused iff ...
Refused(ws) == \/ \E i \in 1..Len(ws) : Len(ws[i].name) > 8
               \/ \E i, j \in 1..Len(ws) : i # j /\ CIEqual(ws[i].name, ws[j].name)
               \/ \E i \in 1..Len(ws) : ws[i].fmt # ws[1].fmt
RECURSIVE Insert(_, _)
Insert(m, ms) == IF ms = <<>> THEN <<m>>
                 ELSE IF Less(m.name, Head(ms).name) THEN <<m>> \o ms ELSE <<Head(ms)>> \o Insert(m, Tail(ms))
RECURSIVE SortCI(_)
SortCI(ms) == IF ms = <<>> THEN <<>> ELSE Insert(Head(ms), SortCI(Tail(ms)))
EndsWithLastData(ws) == ws # <<>> => ClmFileLen(ws) = DataOff(ws, Len(ws)) + ws[Len(ws)].dataLen
====
