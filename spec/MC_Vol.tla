---- MODULE MC_Vol ----
(* Bounded instance for C01: every file set from the pool, every order, several path spellings. *)
EXTENDS Vol, Scen, Rand
CONSTANTS MaxFiles, Big, Seed, NRand     \* Seed / NRand: the seeded random family (NRand file sets drawn from a wide name alphabet)
\* Big     \* Big: member sizes around the 128 KiB copy chunk instead of the small residues
VARIABLES kind, fset, fsz
vars == <<kind, fset, fsz>>
\* name pool built to hit the ordering corners: "a" "A" "B" "ab" "a_" "a.b" "Z9" "a-" ".a" "b\a"
Pool == << <<97>>, <<65>>, <<66>>, <<97,98>>, <<97,95>>, <<97,46,98>>, <<90,57>>, <<97,45>>, <<46,97>>, <<98,92,97>> >>      \* ... ".a": a leading dot is part of the name; "b\a": a backslash is an ordinary name character here
Sizes == IF Big THEN {131071, 131072, 131073, 262144} ELSE {0, 1, 2, 3, 4, 5}
Dirs == << <<>>, <<46,47>>, <<100,47>>, <<68,47>> >>          \* "", "./", "d/", "D/"
OutName == <<111,46,118,111,108>>                             \* "o.vol"
ToUpper(s) == [i \in 1..Len(s) |-> IF s[i] >= 97 /\ s[i] <= 122 THEN s[i] - 32 ELSE s[i]]
ToLower(s) == FoldS(s)
Seqs(S, n) == [1..n -> S]
Member(ix, sz, id) == [name |-> Pool[ix], size |-> sz, data |-> << Blob(id, 0, sz) >>, kind |-> Uncompressed]
PathOf(d, ix) == Dirs[d] \o Pool[ix]
ScenarioOfRel(ms, paths, rel) ==
  LET n == Len(ms)
      Create(out, ins, expect) == IF rel THEN VolCreateRel(out, ins, expect) ELSE VolCreate(out, ins, expect)
      StripDotSlash(q) == IF Len(q) >= 2 /\ SubSeq(q, 1, 2) = <<46,47>> THEN SubSeq(q, 3, Len(q)) ELSE q
      samePath == \E i, j \in 1..n : i # j /\ StripDotSlash(paths[i]) = StripDotSlash(paths[j])        \* one FILE listed twice ("x" and "./x" are the same file): the scenario would overwrite its own input
      puts == [i \in 1..n |-> Put(paths[i], ms[i].data)]
      refused == HasDup(ms)
      s == SortCI(ms)
      listing == [i \in 1..Len(s) |-> [name |-> s[i].name, size |-> s[i].size, kind |-> s[i].kind]]
      perMember == Flatten([i \in 1..Len(s) |->
                     << VolIndex(s[i].name, i - 1), VolIndex(ToUpper(s[i].name), i - 1), VolIndex(ToLower(s[i].name), i - 1),
                        VolIndex(<<46,47>> \o s[i].name, i - 1), VolIndex(<<113,47>> \o s[i].name, NoIndex),      \* "q/name" is a different path: not a member
                        VolStream(i - 1, s[i].data), VolStreamByName(ToUpper(s[i].name), s[i].data), VolExtract(i - 1, <<120,47>> \o s[i].name, s[i].data),
                        VolExtractByName(ToUpper(s[i].name), <<121,47>> \o s[i].name, s[i].data) >>])
  IN IF samePath THEN <<>> ELSE
     << MkDir(<<100>>), MkDir(<<68>>) >> \o puts \o << Put(OutName, << Lit(<<1, 2, 3>>) >>) >>
     \o (IF refused
         THEN << Create(OutName, paths, "refuse"), FileEq(OutName, << Lit(<<1, 2, 3>>) >>) >>
              \o [i \in 1..n |-> FileEq(paths[i], ms[i].data)]
         ELSE << Create(OutName, paths, "ok"), FileEq(OutName, Layout(s)), VolOpenL(OutName, listing, FileLen(s)) >>
              \o perMember \o << VolMemberErr(Len(s)), VolMemberErr(Len(s) + 1), VolIndex(<<113>>, NoIndex), VolExtractAll(<<120,122>>) >>)
ScenarioOf(ms, paths) == ScenarioOfRel(ms, paths, FALSE)
\* inputs given relative to the current directory, some as bare file names and some with a directory part (the sort key is the file name either way)
MixedScenario(ixs, ds) == ScenarioOfRel([i \in 1..Len(ixs) |-> Member(ixs[i], i, i)], [i \in 1..Len(ixs) |-> PathOf(ds[i], ixs[i])], TRUE)
Scenario(ixs, szs, ds) == ScenarioOf([i \in 1..Len(ixs) |-> Member(ixs[i], szs[i], i)], [i \in 1..Len(ixs) |-> PathOf(ds[i], ixs[i])])
\* the output path names one of the inputs (same spelling up to letter case and a leading "./"): refused, nothing modified
OutVariants == << OutName, <<46,47>> \o OutName, ToUpper(OutName), <<46,47,79,46,118,111,108>> >>       \* "o.vol" "./o.vol" "O.VOL" "./O.vol"
\* every spelling of the output against every spelling of the input (both directions of the "./" and of the letter case)
Plain(x) == IF Len(x) >= 2 /\ SubSeq(x, 1, 2) = <<46,47>> THEN SubSeq(x, 3, Len(x)) ELSE x
SelfScenario(vo, vi, extra) ==
  LET other == Member(extra, 3, 1)
      out == OutVariants[vo]
      self == OutVariants[vi]
      sameFile == Plain(out) = Plain(self)
  IN << Put(Pool[extra], other.data), Put(Plain(out), << Lit(<<1, 2, 3>>) >>) >>
     \o (IF sameFile THEN <<>> ELSE << Put(Plain(self), << Lit(<<4, 5>>) >>) >>)
     \o << VolCreateRel(out, << Pool[extra], self >>, "refuse"), FileEq(Plain(out), << Lit(<<1, 2, 3>>) >>), FileEq(Pool[extra], other.data),
           VolCreateRel(out, << self, Pool[extra] >>, "refuse"), FileEq(Plain(out), << Lit(<<1, 2, 3>>) >>) >>
     \o (IF sameFile THEN <<>> ELSE << FileEq(Plain(self), << Lit(<<4, 5>>) >>) >>)
Distinct(ixs) == \A i, j \in DOMAIN ixs : i # j => ixs[i] # ixs[j]
\* ---- one TLC state per input: the file set (indices into the name pool, sizes) or a "self" case ------------------------------------------
\* The model-level laws are INVARIANTs evaluated in every state; Export (an invariant that always holds) prints the state's scenario.
\* ---- the seeded random family: names over letters of both cases, digits and the punctuation that sorts between / around the letters ----
NameAlphabet == << 97, 98, 122, 65, 66, 90, 48, 57, 95, 45, 46, 91, 93, 94, 96, 126, 33, 40, 92 >>      \* a b z A B Z 0 9 _ - . [ ] ^ ` ~ ! ( and the backslash
RandName(r, i) == Draw(Seed * 101 + r, 10 + i, 1 + Below(Seed * 101 + r, 3, i, 7), NameAlphabet)
RandSize(r, i) == LET c == Below(Seed * 101 + r, 4, i, 10) IN IF c = 0 THEN 0 ELSE IF c = 1 THEN 131070 + Below(Seed * 101 + r, 5, i, 5) ELSE Below(Seed * 101 + r, 6, i, 300)
RandMembers(r) == [i \in 1..Below(Seed * 101 + r, 1, 0, 7) |-> [name |-> RandName(r, i), size |-> RandSize(r, i), data |-> << Blob(i, 0, RandSize(r, i)) >>, kind |-> Uncompressed]]
RandPaths(r) == LET ms == RandMembers(r) IN [i \in 1..Len(ms) |-> Dirs[Below(Seed * 101 + r, 7, i, Len(Dirs)) + 1] \o ms[i].name]
\* names that are not usable as a single path component are left out of the family
Usable(name) == name # <<46>> /\ name # <<46, 46>>
Init == \/ /\ kind = "rand" /\ fset \in {<<r>> : r \in 1..NRand} /\ fsz = <<>>
           /\ \A i \in 1..Len(RandMembers(fset[1])) : Usable(RandMembers(fset[1])[i].name)
        \/ /\ kind = "set"
           /\ \E n \in 0..MaxFiles : fset \in Seqs(1..Len(Pool), n) /\ fsz \in Seqs(Sizes, n)
           /\ Distinct(fset)
        \/ /\ kind = "mixed" /\ ~Big /\ fsz \in [1..3 -> {1, 3}] /\ (\E i, j \in 1..3 : fsz[i] # fsz[j])            \* fsz: per member, bare (1) or under "d/" (3)
           /\ fset \in { <<1, 2, 4>>, <<3, 1, 4>>, <<1, 4, 3>>, <<5, 1, 2>>, <<4, 9, 3>> }
        \/ /\ kind = "missing" /\ ~Big /\ fset \in {<<1, 0>>, <<3, 1>>, <<9, 1>>} /\ fsz = <<>>
        \/ /\ kind = "self" /\ ~Big
           /\ fset \in {<<vo, vi, extra>> : vo \in 1..Len(OutVariants), vi \in 1..Len(OutVariants), extra \in {1, 3}} /\ fsz = <<>>
\* an input that does not exist: refused (the inputs are opened before the output is), the existing output untouched
MissingScenario(extra, first) ==
  LET other == Member(extra, 3, 1)  miss == <<109, 105, 115, 115>>
  IN << Put(Pool[extra], other.data), Put(OutName, << Lit(<<1, 2, 3>>) >>),
        VolCreate(OutName, IF first THEN << miss, Pool[extra] >> ELSE << Pool[extra], miss >>, "refuse"), FileEq(OutName, << Lit(<<1, 2, 3>>) >>), FileEq(Pool[extra], other.data) >>
Next == UNCHANGED vars
Spec == Init /\ [][Next]_vars
Members == IF kind = "rand" THEN RandMembers(fset[1]) ELSE [i \in 1..Len(fset) |-> Member(fset[i], fsz[i], i)]
\* every layout of a duplicate-free file set is well-formed under the format description (C02)
LayoutWellFormed == (kind \in {"set", "rand"} /\ ~HasDup(Members)) => WellFormed(SortCI(Members))
\* sorting is a permutation that puts the names in ascending case-blind order (C01)
SortedAscending == kind \in {"set", "rand"} => LET s == SortCI(Members) IN
                     /\ Len(s) = Len(Members) /\ \A i \in 1..(Len(s) - 1) : ~Less(s[i + 1].name, s[i].name)
                     /\ \A m \in {Members[i] : i \in 1..Len(Members)} : \E j \in 1..Len(s) : s[j] = m
Export == IF kind = "rand" THEN (LET sc == ScenarioOf(RandMembers(fset[1]), RandPaths(fset[1])) IN sc # <<>> => PrintT("S|" \o ToJson([id |-> <<"rand", Seed, fset[1]>>, steps |-> sc])))
          ELSE IF kind = "mixed" THEN PrintT("S|" \o ToJson([id |-> <<"mixed", fset, fsz>>, steps |-> << MkDir(<<100>>) >> \o MixedScenario(fset, fsz)]))
          ELSE IF kind = "missing" THEN PrintT("S|" \o ToJson([id |-> <<"missing", fset>>, steps |-> MissingScenario(fset[1], fset[2] = 1)]))
          ELSE IF kind = "self" THEN PrintT("S|" \o ToJson([id |-> <<"self", fset>>, steps |-> SelfScenario(fset[1], fset[2], fset[3])]))
          ELSE LET n == Len(fset)
                   \* one spelling vector per (fset, fsz), rotating through the directories
                   ds == [i \in 1..n |-> ((fset[i] + fsz[i] + i) % Len(Dirs)) + 1]
                   sc == Scenario(fset, fsz, ds)
               IN sc # <<>> => PrintT("S|" \o ToJson([id |-> <<fset, fsz>>, steps |-> sc]))
====
