---- MODULE MC_Vol ----
(* Bounded instance for C01: every file set from the pool, every order, several path spellings. *)
EXTENDS Vol, Scen
CONSTANTS MaxFiles, Big      \* Big: member sizes around the 128 KiB copy chunk instead of the small residues
VARIABLES done
\* name pool built to hit the ordering corners: "a" "A" "B" "ab" "a_" "a.b" "Z9" "a-"
Pool == << <<97>>, <<65>>, <<66>>, <<97,98>>, <<97,95>>, <<97,46,98>>, <<90,57>>, <<97,45>> >>
Sizes == IF Big THEN {131071, 131072, 131073, 262144} ELSE {0, 1, 2, 3, 4, 5}
Dirs == << <<>>, <<46,47>>, <<100,47>>, <<68,47>> >>          \* "", "./", "d/", "D/"
OutName == <<111,46,118,111,108>>                             \* "o.vol"
ToUpper(s) == [i \in 1..Len(s) |-> IF s[i] >= 97 /\ s[i] <= 122 THEN s[i] - 32 ELSE s[i]]
ToLower(s) == FoldS(s)
Seqs(S, n) == [1..n -> S]
Member(ix, sz, id) == [name |-> Pool[ix], size |-> sz, data |-> << Blob(id, 0, sz) >>, kind |-> Uncompressed]
PathOf(d, ix) == Dirs[d] \o Pool[ix]
Scenario(ixs, szs, ds) ==
  LET n == Len(ixs)
      ms == [i \in 1..n |-> Member(ixs[i], szs[i], i)]
      paths == [i \in 1..n |-> PathOf(ds[i], ixs[i])]
      samePath == \E i, j \in 1..n : i # j /\ paths[i] = paths[j]        \* one file listed twice: same name, refused as duplicate
      puts == [i \in 1..n |-> Put(paths[i], ms[i].data)]
      refused == HasDup(ms)
      s == SortCI(ms)
      listing == [i \in 1..Len(s) |-> [name |-> s[i].name, size |-> s[i].size, kind |-> s[i].kind]]
      perMember == Flatten([i \in 1..Len(s) |->
                     << VolIndex(s[i].name, i - 1), VolIndex(ToUpper(s[i].name), i - 1), VolIndex(ToLower(s[i].name), i - 1),
                        VolIndex(<<46,47>> \o s[i].name, i - 1), VolIndex(<<113,47>> \o s[i].name, NoIndex),      \* "q/name" is a different path: not a member
                        VolStream(i - 1, s[i].data), VolExtract(i - 1, <<120,47>> \o s[i].name, s[i].data),
                        VolExtractByName(ToUpper(s[i].name), <<121,47>> \o s[i].name, s[i].data) >>])
  IN IF samePath THEN <<>> ELSE
     << MkDir(<<100>>), MkDir(<<68>>) >> \o puts \o << Put(OutName, << Lit(<<1, 2, 3>>) >>) >>
     \o (IF refused
         THEN << VolCreate(OutName, paths, "refuse"), FileEq(OutName, << Lit(<<1, 2, 3>>) >>) >>
              \o [i \in 1..n |-> FileEq(paths[i], ms[i].data)]
         ELSE << VolCreate(OutName, paths, "ok"), FileEq(OutName, Layout(s)), VolOpen(OutName, listing) >>
              \o perMember \o << VolMemberErr(Len(s)), VolMemberErr(Len(s) + 1), VolIndex(<<113>>, NoIndex), VolExtractAll(<<122>>) >>)
\* the output path names one of the inputs (same spelling up to letter case and a leading "./"): refused, nothing modified
OutVariants == << OutName, <<46,47>> \o OutName, ToUpper(OutName), <<46,47,79,46,118,111,108>> >>       \* "o.vol" "./o.vol" "O.VOL" "./O.vol"
SelfScenario(v, extra) ==
  LET other == Member(extra, 3, 1)
      self == OutVariants[v]
  IN << Put(Pool[extra], other.data), Put(OutName, << Lit(<<1, 2, 3>>) >>) >>
     \o (IF self # OutName /\ self # <<46,47>> \o OutName THEN << Put(self, << Lit(<<4, 5>>) >>) >> ELSE <<>>)
     \o << VolCreateRel(OutName, << Pool[extra], self >>, "refuse"), FileEq(OutName, << Lit(<<1, 2, 3>>) >>), FileEq(Pool[extra], other.data),
           VolCreateRel(OutName, << self, Pool[extra] >>, "refuse"), FileEq(OutName, << Lit(<<1, 2, 3>>) >>) >>
Distinct(ixs) == \A i, j \in DOMAIN ixs : i # j => ixs[i] # ixs[j]
Init == done = FALSE
Next == /\ ~done /\ done' = TRUE
        /\ \A n \in 0..MaxFiles : \A ixs \in Seqs(1..Len(Pool), n) :
             Distinct(ixs) =>
               \A szs \in Seqs(Sizes, n) :
                 \* one spelling vector per (ixs, szs), rotating through the directories
                 LET ds == [i \in 1..n |-> ((ixs[i] + szs[i] + i) % Len(Dirs)) + 1]
                     sc == Scenario(ixs, szs, ds)
                     ms == SortCI([i \in 1..n |-> Member(ixs[i], szs[i], i)])
                 IN /\ (~HasDup(ms) => Assert(WellFormed(ms), <<"layout not well-formed", ms>>))
                    /\ (sc # <<>> => PrintT("S|" \o ToJson([id |-> <<ixs, szs>>, steps |-> sc])))
        /\ (~Big => \A v \in 1..Len(OutVariants) : \A extra \in {1, 3} : PrintT("S|" \o ToJson([id |-> <<"self", v, extra>>, steps |-> SelfScenario(v, extra)])))
Spec == Init /\ [][Next]_done
====
