---- MODULE Names ----
EXTENDS Naturals, Sequences
\* names are sequences of ASCII codes
Fold(c) == IF c >= 65 /\ c <= 90 THEN c + 32 ELSE c
FoldS(s) == [i \in 1..Len(s) |-> Fold(s[i])]
CIEqual(s, t) == FoldS(s) = FoldS(t)
RECURSIVE LessFrom(_, _, _)
LessFrom(s, t, i) ==
  IF i > Len(s) \/ i > Len(t) THEN Len(s) < Len(t)
  ELSE IF Fold(s[i]) < Fold(t[i]) THEN TRUE
  ELSE IF Fold(s[i]) > Fold(t[i]) THEN FALSE
  ELSE LessFrom(s, t, i + 1)
Less(s, t) == LessFrom(s, t, 1)
====
