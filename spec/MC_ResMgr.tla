---- MODULE MC_ResMgr ----
(* Bounded instance for C17: directory layouts over a small name universe, queries in every case variant. *)
EXTENDS ResMgr
VARIABLES done
aTxt == <<97,46,116,120,116>>   ATXT == <<65,46,84,88,84>>   bMap == <<98,46,109,97,112>>   cTrk == <<99>>   bTxt == <<98,46,116,120,116>>
xVol == <<120,46,118,111,108>>  yVol == <<121,46,118,111,108>>  zClm == <<122,46,99,108,109>>
\* where a name may live: 1 loose, 2 in x.vol, 3 in y.vol  (cTrk: 1 loose, 4 in z.clm)
Places == {1, 2, 3}
Universe == << aTxt, ATXT, bMap, bTxt >>
Upper(s) == [i \in 1..Len(s) |-> IF s[i] >= 97 /\ s[i] <= 122 THEN s[i] - 32 ELSE s[i]]
SubDir == <<115, 117, 98, 47>>      \* "sub/" : an (empty) sub-directory of the resource directory; no archive member carries a directory component
Queries == << aTxt, ATXT, DotSlash \o aTxt, bMap, Upper(bMap), DotSlash \o Upper(bMap), bTxt, Upper(bTxt), cTrk, Upper(cTrk), <<47>> \o aTxt, <<113>>,
              SubDir \o aTxt, Upper(SubDir) \o ATXT, DotSlash \o SubDir \o bMap, <<111, 47>> \o cTrk >>
ExtTxt == <<46,116,120,116>>   ExtMap == <<46,109,97,112>>
\* the spellings of an extension: with and without the dot, in either case, a proper prefix of an extension, the empty one
TypeQueries == << ExtTxt, Upper(ExtTxt), <<116,120,116>>, <<84,88,84>>, <<46,84,120,116>>, ExtMap, <<77,97,112>>, <<>>, <<46,116,120>>, <<120,116>>, <<46>> >>
Pat(k, t) == [kind |-> k, text |-> t]
\* "root" and "s" occur in the directory part of the sandbox path but in no file name: a pattern evaluated on the path would match everything
Patterns == << Pat("prefix", <<97>>), Pat("suffix", <<46,116,120,116>>), Pat("contains", <<98,46>>), Pat("exact", aTxt), Pat("contains", <<118,111,108>>),
               Pat("prefix", <<120>>), Pat("contains", <<114,111,111,116>>), Pat("suffix", <<84,88,84>>), Pat("prefix", <<47>>), Pat("exact", <<99>>) >>
\* a layout is chosen by a subset of places for each universe name, plus whether the CLM track exists and a loose "c"
Emit(id, steps) == PrintT("S|" \o ToJson([id |-> id, steps |-> steps]))
Blob(i) == i
SelSeq(f) == SelectSeq(<<1, 2, 3, 4>>, LAMBDA i : f[i])
Init == done = FALSE
Next == /\ ~done /\ done' = TRUE
        /\ \A pl \in [1..Len(Universe) -> SUBSET Places] : \A clm \in BOOLEAN : \A looseC \in BOOLEAN :
             \* keep the enumeration moderate: at most 5 placements in total; x.vol must not hold two names equal ignoring case
             (LET total == Cardinality({<<i, p>> \in (1..Len(Universe)) \X Places : p \in pl[i]}) IN total <= 4 /\ total >= 1)
             /\ ~(2 \in pl[1] /\ 2 \in pl[2]) /\ ~(3 \in pl[1] /\ 3 \in pl[2]) =>
             LET loose == SelectSeq([i \in 1..Len(Universe) |-> [name |-> Universe[i], blob |-> 10 * i + 1, on |-> 1 \in pl[i]]], LAMBDA r : r.on)
                         \o (IF looseC THEN << [name |-> cTrk, blob |-> 91, on |-> TRUE] >> ELSE <<>>)
                 xm == SelectSeq([i \in 1..Len(Universe) |-> [name |-> Universe[i], blob |-> 10 * i + 2, on |-> 2 \in pl[i]]], LAMBDA r : r.on)
                 ym == SelectSeq([i \in 1..Len(Universe) |-> [name |-> Universe[i], blob |-> 10 * i + 3, on |-> 3 \in pl[i]]], LAMBDA r : r.on)
                 vols == (IF xm # <<>> THEN << [file |-> xVol, kind |-> "vol", members |-> xm] >> ELSE <<>>)
                         \o (IF ym # <<>> THEN << [file |-> yVol, kind |-> "vol", members |-> ym] >> ELSE <<>>)
                 clms == IF clm THEN << [file |-> zClm, kind |-> "clm", members |-> << [name |-> cTrk, blob |-> 94] >>] >> ELSE <<>>
                 Answers(archives) == LET L == [loose |-> loose, archives |-> archives] IN
                    [order |-> [i \in 1..Len(archives) |-> archives[i].file],
                     res |-> [i \in 1..Len(Queries) |-> [withArch |-> Resolve(L, Queries[i], TRUE), noArch |-> Resolve(L, Queries[i], FALSE),
                                                          containing |-> IF IsRooted(Queries[i]) THEN <<63>> ELSE ContainingArchive(L, Queries[i])]],
                     pats |-> [i \in 1..Len(Patterns) |-> [withArch |-> ListByPattern(L, Patterns[i], TRUE), noArch |-> ListByPattern(L, Patterns[i], FALSE)]],
                     types |-> [i \in 1..Len(TypeQueries) |-> [withArch |-> ListOfType(L, TypeQueries[i], TRUE), noArch |-> ListOfType(L, TypeQueries[i], FALSE)]],
                     txt |-> ListOfType(L, ExtTxt, TRUE), txtLoose |-> ListOfType(L, ExtTxt, FALSE), map |-> ListOfType(L, ExtMap, TRUE)]
                 rev == [i \in 1..Len(vols) |-> vols[Len(vols) + 1 - i]]
             IN Emit(<<pl, clm, looseC>>, << [op |-> "resmgr", loose |-> loose, vols |-> vols, clms |-> clms, queries |-> Queries, patterns |-> Patterns, types |-> TypeQueries,
                                              badRoots |-> << <<110,111,112,101>> >> \o (IF loose # <<>> THEN << loose[1].name >> ELSE <<>>),     \* "nope" and a regular file are no resource directories: construction refused
                                              answers |-> << Answers(vols \o clms), Answers(rev \o clms) >>] >>)
Spec == Init /\ [][Next]_done
====
