---- MODULE MC_ResMgr ----
(* Bounded instance for C17: directory layouts over a small name universe, queries in every case variant. *)
EXTENDS ResMgr
VARIABLES pl, clm, looseC
vars == <<pl, clm, looseC>>
aTxt == <<97,46,116,120,116>>   ATXT == <<65,46,84,88,84>>   bMap == <<98,46,109,97,112>>   cTrk == <<99>>   bTxt == <<98,46,116,120,116>>
eight == <<116,114,107,95,48,48,48,56>>      \* "trk_0008": a CLM member name of exactly 8 characters fills its name field (no terminator is stored)
xVol == <<120,46,118,111,108>>  yVol == <<121,46,118,111,108>>  zClm == <<122,46,99,108,109>>
\* where a name may live: 1 loose, 2 in x.vol, 3 in y.vol  (cTrk: 1 loose, 4 in z.clm)
Places == {1, 2, 3}
Universe == << aTxt, ATXT, bMap, bTxt >>
Upper(s) == [i \in 1..Len(s) |-> IF s[i] >= 97 /\ s[i] <= 122 THEN s[i] - 32 ELSE s[i]]
SubDir == <<115, 117, 98, 47>>      \* "sub/" : an (empty) sub-directory of the resource directory; no archive member carries a directory component
Queries == << aTxt, ATXT, DotSlash \o aTxt, bMap, Upper(bMap), DotSlash \o Upper(bMap), bTxt, Upper(bTxt), cTrk, Upper(cTrk), <<47>> \o aTxt, <<113>>,
              SubDir \o aTxt, Upper(SubDir) \o ATXT, DotSlash \o SubDir \o bMap, <<111, 47>> \o cTrk, eight, Upper(eight), DotSlash \o eight, SubSeq(eight, 1, 7) >>
ExtTxt == <<46,116,120,116>>   ExtMap == <<46,109,97,112>>
\* the spellings of an extension: with and without the dot, in either case, a proper prefix of an extension, the empty one
TypeQueries == << ExtTxt, Upper(ExtTxt), <<116,120,116>>, <<84,88,84>>, <<46,84,120,116>>, ExtMap, <<77,97,112>>, <<>>, <<46,116,120>>, <<120,116>>, <<46>> >>
Pat(k, t) == [kind |-> k, text |-> t]
\* "root" and "s" occur in the directory part of the sandbox path but in no file name: a pattern evaluated on the path would match everything
Patterns == << Pat("prefix", <<97>>), Pat("suffix", <<46,116,120,116>>), Pat("contains", <<98,46>>), Pat("exact", aTxt), Pat("contains", <<118,111,108>>),
               Pat("prefix", <<120>>), Pat("contains", <<114,111,111,116>>), Pat("suffix", <<84,88,84>>), Pat("prefix", <<47>>), Pat("exact", <<99>>), Pat("exact", eight), Pat("prefix", <<116,114,107>>) >>
\* a layout is chosen by a subset of places for each universe name, plus whether the CLM track exists and a loose "c"
Emit(id, steps) == PrintT("S|" \o ToJson([id |-> id, steps |-> steps]))
Blob(i) == i
SelSeq(f) == SelectSeq(<<1, 2, 3, 4>>, LAMBDA i : f[i])
\* ---- one TLC state per directory layout: pl[i] = the places universe name i lives in, clm = the CLM archive exists, looseC = a loose "c" ----
Total(p) == Cardinality({<<i, q>> \in (1..Len(Universe)) \X Places : q \in p[i]})
Init == /\ pl \in [1..Len(Universe) -> SUBSET Places] /\ clm \in BOOLEAN /\ looseC \in BOOLEAN
        \* keep the enumeration moderate: 1..4 placements in total; one archive must not hold two names equal ignoring case
        /\ Total(pl) <= 4 /\ Total(pl) >= 1
        /\ ~(2 \in pl[1] /\ 2 \in pl[2]) /\ ~(3 \in pl[1] /\ 3 \in pl[2])
Next == UNCHANGED vars
Spec == Init /\ [][Next]_vars
Loose == SelectSeq([i \in 1..Len(Universe) |-> [name |-> Universe[i], blob |-> 10 * i + 1, on |-> 1 \in pl[i]]], LAMBDA r : r.on)
         \o (IF looseC THEN << [name |-> cTrk, blob |-> 91, on |-> TRUE] >> ELSE <<>>)
Xm == SelectSeq([i \in 1..Len(Universe) |-> [name |-> Universe[i], blob |-> 10 * i + 2, on |-> 2 \in pl[i]]], LAMBDA r : r.on)
Ym == SelectSeq([i \in 1..Len(Universe) |-> [name |-> Universe[i], blob |-> 10 * i + 3, on |-> 3 \in pl[i]]], LAMBDA r : r.on)
Vols == (IF Xm # <<>> THEN << [file |-> xVol, kind |-> "vol", members |-> Xm] >> ELSE <<>>)
        \o (IF Ym # <<>> THEN << [file |-> yVol, kind |-> "vol", members |-> Ym] >> ELSE <<>>)
Clms == IF clm THEN << [file |-> zClm, kind |-> "clm", members |-> << [name |-> cTrk, blob |-> 94], [name |-> eight, blob |-> 95] >>] >> ELSE <<>>
Rev == [i \in 1..Len(Vols) |-> Vols[Len(Vols) + 1 - i]]
\* the two load orders the directory iteration may produce
Layouts == << [loose |-> Loose, archives |-> Vols \o Clms], [loose |-> Loose, archives |-> Rev \o Clms] >>
Answers(L) ==
   [order |-> [i \in 1..Len(L.archives) |-> L.archives[i].file],
    res |-> [i \in 1..Len(Queries) |-> [withArch |-> Resolve(L, Queries[i], TRUE), noArch |-> Resolve(L, Queries[i], FALSE),
                                         containing |-> IF IsRooted(Queries[i]) THEN <<63>> ELSE ContainingArchive(L, Queries[i])]],
    pats |-> [i \in 1..Len(Patterns) |-> [withArch |-> ListByPattern(L, Patterns[i], TRUE), noArch |-> ListByPattern(L, Patterns[i], FALSE)]],
    types |-> [i \in 1..Len(TypeQueries) |-> [withArch |-> ListOfType(L, TypeQueries[i], TRUE), noArch |-> ListOfType(L, TypeQueries[i], FALSE)]],
    txt |-> ListOfType(L, ExtTxt, TRUE), txtLoose |-> ListOfType(L, ExtTxt, FALSE), map |-> ListOfType(L, ExtMap, TRUE)]
\* ---- the laws of the resolution rule, evaluated by TLC on every layout and both load orders ----------------------------------------------
AsSet(q) == {q[i] : i \in 1..Len(q)}
LooseNames(L) == {L.loose[i].name : i \in 1..Len(L.loose)}
MemberNames(L) == UNION {{L.archives[a].members[j].name : j \in 1..Len(L.archives[a].members)} : a \in 1..Len(L.archives)}
\* a loose file of exactly that name wins; without archive access nothing else is ever delivered; rooted names are refused either way
LooseFirst == \A k \in 1..2 : \A i \in 1..Len(Queries) : LET L == Layouts[k]  q == Queries[i]  r == Resolve(L, q, TRUE)  n == Resolve(L, q, FALSE) IN
   /\ (IsRooted(q) <=> r.kind = "refused") /\ (IsRooted(q) <=> n.kind = "refused")
   /\ (~IsRooted(q) /\ StripDot(q) \in LooseNames(L)) => (r.kind = "bytes" /\ n = r /\ \E j \in 1..Len(L.loose) : L.loose[j].name = StripDot(q) /\ L.loose[j].blob = r.blob)
   /\ (n.kind = "bytes" => StripDot(q) \in LooseNames(L))
   /\ (r.kind = "bytes" /\ n.kind = "none" => \E a \in 1..Len(L.archives) : \E j \in 1..Len(L.archives[a].members) :
                                                     NameEq(L.archives[a].members[j].name, q) /\ L.archives[a].members[j].blob = r.blob)
\* a reported containing archive really contains the name; none is reported only if no archive does
ContainingContains == \A k \in 1..2 : \A i \in 1..Len(Queries) : LET L == Layouts[k]  q == Queries[i]  c == ContainingArchive(L, q) IN
   ~IsRooted(q) => IF c = <<>> THEN \A a \in 1..Len(L.archives) : ~Contains(L.archives[a], q)
                   ELSE \E a \in 1..Len(L.archives) : L.archives[a].file = c /\ Contains(L.archives[a], q)
\* type listings: only names that exist, every loose file of exactly that extension, no archive member that repeats a listed name ignoring case,
\* and every matching member is represented by some listed name equal to it ignoring case
TypeListingLaws == \A k \in 1..2 : \A i \in 1..Len(TypeQueries) : LET L == Layouts[k]  e == TypeQueries[i]  t == ListOfType(L, e, TRUE)  lo == ListOfType(L, e, FALSE) IN
   /\ AsSet(t) \subseteq LooseNames(L) \cup MemberNames(L)
   /\ AsSet(lo) = {n \in LooseNames(L) : Ext(n) = e} /\ SubSeq(t, 1, Len(lo)) = lo
   /\ \A a, b \in (Len(lo) + 1)..Len(t) : a # b => ~CIEqual(t[a], t[b])
   /\ \A m \in MemberNames(L) : CIEqual(Ext(m), WithDot(e)) => \E a \in 1..Len(t) : CIEqual(t[a], m)
\* pattern listings do not depend on the load order as sets, and the loose-only listing is a prefix of the full one
PatternListingLaws == \A i \in 1..Len(Patterns) :
   /\ AsSet(ListByPattern(Layouts[1], Patterns[i], TRUE)) = AsSet(ListByPattern(Layouts[2], Patterns[i], TRUE))
   /\ \A k \in 1..2 : LET f == ListByPattern(Layouts[k], Patterns[i], TRUE)  lo == ListByPattern(Layouts[k], Patterns[i], FALSE) IN SubSeq(f, 1, Len(lo)) = lo
Export == Emit(<<pl, clm, looseC>>, << [op |-> "resmgr", loose |-> Loose, vols |-> Vols, clms |-> Clms, queries |-> Queries, patterns |-> Patterns, types |-> TypeQueries,
                                         badRoots |-> << <<110,111,112,101>> >> \o (IF Loose # <<>> THEN << Loose[1].name >> ELSE <<>>),     \* "nope" and a regular file are no resource directories: construction refused
                                         answers |-> << Answers(Layouts[1]), Answers(Layouts[2]) >>] >>)
====
