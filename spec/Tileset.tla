---- MODULE Tileset ----
EXTENDS Bmp
TagPBMP == <<80, 66, 77, 80>>
TagHead == <<104, 101, 97, 100>>
TagPPAL == <<80, 80, 65, 76>>
TagDat  == <<100, 97, 116, 97>>
\* a tileset picture is a bitmap value with bc = 8, w = 32, |h| a multiple of 32, up to 256 colours
IsTileset(b) == b.bc = 8 /\ b.w = 32 /\ Abs(b.h) % 32 = 0
TopDown(b) == IF b.h > 0 THEN Flip(b) ELSE b        \* top-down bitmaps carry a negative height
Bgr(c) == <<c[3], c[2], c[1], c[4]>>
EncodeCustom(b) ==
  LET t == TopDown(b)  H == Abs(b.h) IN
  TagPBMP \o LE32(1068 + 32 * H)
  \o TagHead \o LE32(20) \o LE32(2) \o LE32(32) \o LE32(H) \o LE32(8) \o LE32(8)
  \o TagPPAL \o LE32(1048) \o TagHead \o LE32(4) \o LE32(1)
  \o TagDat \o LE32(1024) \o Flatten([i \in 1..256 |-> Bgr(FullPalette(t)[i])])       \* the palette section has a fixed length: a partial palette is padded with black
  \o TagDat \o LE32(32 * H) \o Flatten(t.rows)
\* the same file with another value in the header's bit-depth word (the section layout stays that of an 8-bit picture): not a tileset
EncodeCustomDepth(b, bd) == LET e == EncodeCustom(b) IN SubSeq(e, 1, 28) \o LE32(bd) \o SubSeq(e, 33, Len(e))
IsCustom(prefix4) == prefix4 = TagPBMP
====
