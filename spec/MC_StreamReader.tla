---- MODULE MC_StreamReader ----
EXTENDS StreamReader
\* contents are chosen so that the typed helpers meet every class of prefix: zero, exact, one too many,
\* negative (signed), huge; and strings with and without a terminator
C1 == <<2, 0, 65, 0>>
C2 == <<255, 255, 255, 255>>
C3 == <<1, 66, 0, 128>>
C4 == <<>>
C5 == <<3, 0, 0, 0, 7, 8, 9>>
====
