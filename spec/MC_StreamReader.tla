---- MODULE MC_StreamReader ----
EXTENDS StreamReader
\* contents are chosen so that the typed helpers meet every class of prefix: zero, exact, one too many,
\* negative (signed), huge; and strings with and without a terminator
C1 == <<2, 0, 65, 0>>
C2 == <<255, 255, 255, 255>>
C3 == <<1, 66, 0, 128>>
C4 == <<>>
C5 == <<3, 0, 0, 0, 7, 8, 9>>
C6 == <<9, 8, 7, 6, 5, 4, 3, 2, 1>>        \* long enough for an 8-byte value and for containers of wide elements
====
