---- MODULE MC_LzhSched ----
(***************************************************************************************************)
(* Drain schedules for the real decoder (C04: "the byte sequence is the same whether the caller      *)
(* drains it with copies of any sizes or through the internal-buffer interface"): every sequence of    *)
(* up to MaxLen calls over an alphabet placed around the ring size W - the call alphabet of            *)
(* LzhDrain.tla at the real constants - applied cyclically until the stream ends.  0 stands for        *)
(* GetInternalBuffer, n > 0 for GetData(n).  One TLC state per schedule; the conformance harness runs   *)
(* each schedule on every input whose reference output LzhMachine has computed.                         *)
(***************************************************************************************************)
EXTENDS Naturals, Sequences, TLC, Json
CONSTANTS W, M, MaxLen
VARIABLE sched
Calls == {0, 1, M + 2, W \div 4, W \div 2, W - 1, W, W + 1, 2 * W}
Init == \E n \in 1..MaxLen : sched \in [1..n -> Calls]
Next == UNCHANGED sched
Spec == Init /\ [][Next]_sched
\* a schedule made of GetInternalBuffer calls only, or of one GetData size only, is already among the fixed drain modes
Mixed == \E i, j \in 1..Len(sched) : sched[i] # sched[j]
Export == Mixed => PrintT("S|" \o ToJson([id |-> sched, steps |-> <<>>]))
====
