---- MODULE ResMgr ----
(* ResourceManager: resolution of a relative name against a directory of loose files and archives. *)
EXTENDS Naturals, Sequences, FiniteSets, TLC, Json, Names
\* layout: [loose : Seq([name, blob]), archives : Seq([file : name, kind : "vol"|"clm", members : Seq([name, blob])])]
\* `archives` is given in LOAD ORDER (an observed input: every *.vol in directory order, then every *.clm)
DotSlash == <<46, 47>>
StripDot(n) == IF Len(n) >= 2 /\ SubSeq(n, 1, 2) = DotSlash THEN SubSeq(n, 3, Len(n)) ELSE n
IsRooted(n) == Len(n) >= 1 /\ n[1] = 47
\* path equality restricted to plain names with an optional leading "./" (all that occurs here)
NameEq(a, b) == CIEqual(StripDot(a), StripDot(b))
LooseHit(L, n) == {i \in 1..Len(L.loose) : L.loose[i].name = StripDot(n)}      \* the file system is case sensitive
MemberHits(A, n) == {j \in 1..Len(A.members) : NameEq(A.members[j].name, n)}
Contains(A, n) == MemberHits(A, n) # {}
GetIndex(A, n) == CHOOSE j \in MemberHits(A, n) : \A k \in MemberHits(A, n) : j <= k
FirstArchive(L, n) == LET hits == {i \in 1..Len(L.archives) : Contains(L.archives[i], n)} IN
                      IF hits = {} THEN 0 ELSE CHOOSE i \in hits : \A k \in hits : i <= k
\* result: [kind |-> "refused"] | [kind |-> "none"] | [kind |-> "bytes", blob |-> id]
Resolve(L, n, useArchives) ==
  IF IsRooted(n) THEN [kind |-> "refused", blob |-> 0]
  ELSE IF LooseHit(L, n) # {} THEN [kind |-> "bytes", blob |-> L.loose[CHOOSE i \in LooseHit(L, n) : TRUE].blob]
  ELSE IF ~useArchives \/ FirstArchive(L, n) = 0 THEN [kind |-> "none", blob |-> 0]
  ELSE LET A == L.archives[FirstArchive(L, n)] IN [kind |-> "bytes", blob |-> A.members[GetIndex(A, n)].blob]
ContainingArchive(L, n) == IF FirstArchive(L, n) = 0 THEN <<>> ELSE L.archives[FirstArchive(L, n)].file
\* extension of a plain name: from the last dot (not at position 1) to the end, else empty
RECURSIVE LastDot(_, _)
LastDot(n, i) == IF i <= 1 THEN 0 ELSE IF n[i] = 46 THEN i ELSE LastDot(n, i - 1)
Ext(n) == IF LastDot(n, Len(n)) = 0 THEN <<>> ELSE SubSeq(n, LastDot(n, Len(n)), Len(n))
\* type listing: loose files whose extension is exactly ext, then archive members (load order, index order)
\* whose extension matches ignoring case and whose name is not CI-equal to anything already listed
\* for archive members the queried extension need not carry its leading dot ("txt" and ".txt" ask the same; the empty extension asks for names without one)
WithDot(ext) == IF ext = <<>> \/ ext[1] = 46 THEN ext ELSE <<46>> \o ext
RECURSIVE AddMembers(_, _, _)
AddMembers(acc, ms, ext) ==
  IF ms = <<>> THEN acc
  ELSE LET m == Head(ms).name
               take == CIEqual(Ext(m), WithDot(ext)) /\ ~\E i \in 1..Len(acc) : CIEqual(acc[i], m)
       IN AddMembers(IF take THEN Append(acc, m) ELSE acc, Tail(ms), ext)
RECURSIVE AddArchives(_, _, _)
AddArchives(acc, as, ext) == IF as = <<>> THEN acc ELSE AddArchives(AddMembers(acc, Head(as).members, ext), Tail(as), ext)
LooseOfType(L, ext) == SelectSeq([i \in 1..Len(L.loose) |-> L.loose[i].name], LAMBDA n : Ext(n) = ext)
\* loose part is compared as a multiset by the harness (directory order is not specified)
\* pattern listing: loose regular files of the directory (the archive files themselves included) whose *file name* matches,
\* then every matching member of every loaded archive (no de-duplication).  Patterns are case-blind and structured, so that
\* the specification can evaluate them: the harness turns [kind, text] into the regular expression ^text, text$, text or ^text$.
IsPrefixOf(t, m) == Len(t) <= Len(m) /\ SubSeq(m, 1, Len(t)) = t
IsSuffixOf(t, m) == Len(t) <= Len(m) /\ SubSeq(m, Len(m) - Len(t) + 1, Len(m)) = t
Occurs(t, m) == \E i \in 1..(Len(m) - Len(t) + 1) : SubSeq(m, i, i + Len(t) - 1) = t
Matches(p, n) == LET t == FoldS(p.text)  m == FoldS(n) IN
                 CASE p.kind = "prefix" -> IsPrefixOf(t, m) [] p.kind = "suffix" -> IsSuffixOf(t, m)
                   [] p.kind = "contains" -> Occurs(t, m) \/ t = <<>> [] OTHER -> t = m
LooseFilesOf(L) == [i \in 1..Len(L.loose) |-> L.loose[i].name] \o [i \in 1..Len(L.archives) |-> L.archives[i].file]
RECURSIVE MembersMatching(_, _)
MembersMatching(as, p) == IF as = <<>> THEN <<>>
                          ELSE SelectSeq([j \in 1..Len(Head(as).members) |-> Head(as).members[j].name], LAMBDA n : Matches(p, n)) \o MembersMatching(Tail(as), p)
ListByPattern(L, p, useArchives) == SelectSeq(LooseFilesOf(L), LAMBDA n : Matches(p, n)) \o (IF useArchives THEN MembersMatching(L.archives, p) ELSE <<>>)
ListOfType(L, ext, useArchives) == IF useArchives THEN AddArchives(LooseOfType(L, ext), L.archives, ext) ELSE LooseOfType(L, ext)
====
