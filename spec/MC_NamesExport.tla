---- MODULE MC_NamesExport ----
(* C19, pipeline G: the order relation and case-blind equality of module Names on every ordered pair of the      *)
(* universe (the relation on which MC_Names has checked the strict-weak-order laws), the exponents of the powers *)
(* of two, and the universe / extension pool for the path-law recorder (pipeline V, Trace_PathLaws).             *)
EXTENDS Names, Naturals, Sequences, FiniteSets, TLC, Json
CONSTANTS MaxLen
VARIABLE idx
Alphabet == <<97, 65, 98, 95, 46, 47, 48>>          \* a A b _ . / 0
RECURSIVE StrsOfLen(_)
StrsOfLen(n) == IF n = 0 THEN {<<>>} ELSE {Append(s, Alphabet[i]) : s \in StrsOfLen(n - 1), i \in 1..Len(Alphabet)}
U == UNION {StrsOfLen(n) : n \in 0..MaxLen}
\* a fixed enumeration order of the universe
RECURSIVE SetToSeq(_)
SetToSeq(S) == IF S = {} THEN <<>> ELSE LET x == CHOOSE y \in S : TRUE IN <<x>> \o SetToSeq(S \ {x})
\* ... by index arithmetic (no recursion over the universe): the strings of length n occupy the indices Off(n) + 1 .. Off(n + 1)
NA == Len(Alphabet)
RECURSIVE PowA(_)
PowA(n) == IF n = 0 THEN 1 ELSE NA * PowA(n - 1)
RECURSIVE Off(_)
Off(n) == IF n = 0 THEN 0 ELSE Off(n - 1) + PowA(n - 1)
StrAt(k) == LET n == CHOOSE m \in 0..MaxLen : Off(m) < k /\ k <= Off(m + 1)
                r == k - Off(n) - 1
            IN [j \in 1..n |-> Alphabet[((r \div PowA(n - j)) % NA) + 1]]
USeq == [k \in 1..Off(MaxLen + 1) |-> StrAt(k)]
UniverseIsComplete == {USeq[k] : k \in 1..Len(USeq)} = U /\ Len(USeq) = Cardinality(U)
\* the ends of the letter ranges and their neighbours (z Z y Y @ [ ` {), alone and inside names, paths and extensions: outside the enumerated
\* universe, compared with it and with each other (a case fold that is off by one at either end of a range shows only here)
EdgeStrs == << <<122>>, <<90>>, <<121>>, <<89>>, <<64>>, <<91>>, <<96>>, <<123>>, <<122,46,90>>, <<90,46,122>>, <<97,46,122>>, <<97,46,90>>, <<46,47,122>>, <<46,47,90>>,
               <<65,122>>, <<97,90>>, <<97,47,122>>, <<65,47,90>> >>
VSeq == USeq \o EdgeStrs
PairsOver(a) == [j \in 1..Len(VSeq) |-> [a |-> a, b |-> VSeq[j], less |-> Less(a, VSeq[j]), eq |-> CIEqual(a, VSeq[j])]]
Pairs(a) == [j \in 1..Len(USeq) |-> [a |-> a, b |-> USeq[j], less |-> Less(a, USeq[j]), eq |-> CIEqual(a, USeq[j])]]
\* extensions with every case variant (with and without the leading dot)
ToggleCase(c) == IF c >= 97 /\ c <= 122 THEN c - 32 ELSE IF c >= 65 /\ c <= 90 THEN c + 32 ELSE c
RECURSIVE Variants(_)
Variants(s) == IF s = <<>> THEN {<<>>} ELSE LET rest == Variants(Tail(s)) IN {<<Head(s)>> \o r : r \in rest} \cup {<<ToggleCase(Head(s))>> \o r : r \in rest}
ExtPool == << <<120>>, <<46, 120>>, <<97, 66>>, <<46, 84, 120, 116>>, <<48>>, <<>>, <<46>>, <<122>>, <<46, 90, 97, 121>> >>     \* "x" ".x" "aB" ".Txt" "0" "" "." "z" ".Zay"
\* the extension may be given with or without its leading dot
ExtEntry(e) == [ext |-> e, variants |-> SetToSeq(Variants(e) \cup (IF e # <<>> /\ e[1] = 46 THEN {Tail(v) : v \in Variants(e)} ELSE {<<46>> \o v : v \in Variants(e)}))]
Emit(id, steps) == PrintT("S|" \o ToJson([id |-> id, steps |-> steps]))
\* one TLC state per exported record: idx 1..|U| = the relation row of the idx-th string, then the path-law universe, the random-triple
\* recordings and the exponent set
NU == Len(USeq)
Init == idx \in 1..(NU + 6 + Len(EdgeStrs))
Next == UNCHANGED idx
Spec == Init /\ [][Next]_idx
Export == IF idx <= NU THEN Emit(<<"rel", idx>>, << [op |-> "names_rel", pairs |-> Pairs(USeq[idx])] >>)
          ELSE IF idx = NU + 1 THEN PrintT("P|" \o ToJson([exponents |-> SetToSeq(0..31)]))
          ELSE IF idx = NU + 2 THEN Emit(<<"paths">>, << [op |-> "path_laws", universe |-> VSeq, extensions |-> [k \in 1..Len(ExtPool) |-> ExtEntry(ExtPool[k])]] >>)
          ELSE IF idx > NU + 6 THEN Emit(<<"rel-edge", idx - NU - 6>>, << [op |-> "names_rel", pairs |-> PairsOver(EdgeStrs[idx - NU - 6])] >>)
          ELSE Emit(<<"cmp", idx - NU - 2>>, << [op |-> "cmp_random", salt |-> idx - NU - 2, count |-> 400] >>)
====
