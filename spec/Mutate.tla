---- MODULE Mutate ----
(* Seeded random corruption of a byte image: 1..4 bytes at random offsets replaced by boundary or random values, optionally       *)
(* followed by a random truncation.  Complements the field-aware fault models with corruptions no single field explains.        *)
EXTENDS Naturals, Sequences, Rand
MutValue(s, k) == LET c == Below(s, 90, k, 6) IN IF c = 0 THEN 0 ELSE IF c = 1 THEN 255 ELSE IF c = 2 THEN 128 ELSE IF c = 3 THEN 127 ELSE Below(s, 91, k, 256)
RECURSIVE MutateN(_, _, _)
MutateN(img, s, k) == IF k = 0 \/ img = <<>> THEN img
                      ELSE LET at == Below(s, 92, k, Len(img)) + 1 IN MutateN([img EXCEPT ![at] = MutValue(s, k)], s, k - 1)
Mutated(img, s) == LET m == MutateN(img, s, 1 + Below(s, 93, 0, 4)) IN
                   IF Below(s, 94, 0, 5) = 0 /\ Len(m) > 0 THEN SubSeq(m, 1, Below(s, 95, 0, Len(m))) ELSE m
====
