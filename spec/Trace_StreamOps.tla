---------------------------- MODULE Trace_StreamOps ----------------------------
(***************************************************************************************************)
(* Pipeline V on the repository's OWN test suite (and on anything else that runs with the hooks):    *)
(* the library is built with -DOP2UTILITY_VERIF, `make check` runs with OP2UTILITY_VERIF_TRACE set,    *)
(* and every reader (MemoryReader / FileReader / SliceReader) and writer (MemoryWriter / DynamicMemoryWriter / *)
(* FileWriter) operation the 141 tests perform is logged with                                          *)
(* the position and length before and after it.  Each event must be a step of the cursor machine of      *)
(* StreamReader.tla / ReaderBounds (one stream, data forgotten): the tests' own assertions say little    *)
(* about positions after a call, the specification says everything.                                      *)
(*   {"e":"Op","kind":"mem"|"file"|"slice"|"fixed"|"grow"|"filew","op":..,"ok":b,"a":n,"aBig":b,"b":n,"bBig":b,                *)
(*    "p0":n,"p0Big":b,"len0":n,"len0Big":b,"p1":n,"p1Big":b,"len1":n,"len1Big":b}                       *)
(* Values of 2^31 and more are logged clamped with their Big flag set.                                   *)
(***************************************************************************************************)
EXTENDS Integers, Sequences, TLC, Json, IOUtils
Log == ndJsonDeserialize(IOEnv.TRACE)
VARIABLE l
Ev == Log[l]
Init == l = 1
Min(x, y) == IF x < y THEN x ELSE y
Small(e) == ~e.p0Big /\ ~e.len0Big /\ ~e.p1Big /\ ~e.len1Big
Unchanged(e) == e.p1 = e.p0 /\ e.p1Big = e.p0Big
\* a stream with bounds (memory readers, slices): the position never leaves [0, len]; a refused call changes nothing
Bounded(e) ==
  LET rem == e.len0 - e.p0 IN
  /\ e.p0 <= e.len0 /\ e.p1 <= e.len1
  /\ CASE e.op = "Read" -> (e.ok <=> (~e.aBig /\ e.a <= rem)) /\ (IF e.ok THEN e.p1 = e.p0 + e.a ELSE Unchanged(e))
       [] e.op = "ReadPartial" -> e.ok /\ e.p1 = e.p0 + (IF e.aBig THEN rem ELSE Min(e.a, rem))
       [] e.op = "Seek" -> (e.ok <=> (~e.aBig /\ e.a <= e.len0)) /\ (IF e.ok THEN e.p1 = e.a ELSE Unchanged(e))
       [] e.op = "SeekForward" -> (e.ok <=> (~e.aBig /\ e.a <= rem)) /\ (IF e.ok THEN e.p1 = e.p0 + e.a ELSE Unchanged(e))
       [] e.op = "SeekBackward" -> (e.ok <=> (~e.aBig /\ e.a <= e.p0)) /\ (IF e.ok THEN e.p1 = e.p0 - e.a ELSE Unchanged(e))
       [] e.op = "SliceAt" -> (e.ok <=> (~e.aBig /\ ~e.bBig /\ e.a + e.b <= e.len0)) /\ Unchanged(e)
       [] e.op = "SliceHere" -> (e.ok <=> (~e.aBig /\ e.a <= rem)) /\ (IF e.ok THEN e.p1 = e.p0 + e.a ELSE Unchanged(e))
       [] OTHER -> FALSE
\* a bare file reader may be positioned beyond the end of its file; reads, backward seeks and slices are still exact
File(e) ==
  LET rem == IF e.p0 <= e.len0 THEN e.len0 - e.p0 ELSE 0 IN
  CASE e.op = "Read" -> (e.ok <=> (~e.aBig /\ e.a <= rem)) /\ (IF e.ok THEN e.p1 = e.p0 + e.a ELSE Unchanged(e))
    [] e.op = "ReadPartial" -> e.ok /\ e.p1 = e.p0 + (IF e.aBig THEN rem ELSE Min(e.a, rem))
    [] e.op = "Seek" -> (e.ok /\ ~e.aBig) => e.p1 = e.a
    [] e.op = "SeekForward" -> IF e.ok THEN (~e.aBig => e.p1 = e.p0 + e.a) ELSE Unchanged(e)
    [] e.op = "SeekBackward" -> (e.ok <=> (~e.aBig /\ e.a <= e.p0)) /\ (IF e.ok THEN e.p1 = e.p0 - e.a ELSE Unchanged(e))
    [] e.op = "SliceAt" -> (e.ok <=> (~e.aBig /\ ~e.bBig /\ e.a + e.b <= e.len0)) /\ Unchanged(e)
    [] e.op = "SliceHere" -> (e.ok <=> (~e.aBig /\ e.p0 + e.a <= e.len0)) /\ (IF e.ok THEN e.p1 = e.p0 + e.a ELSE Unchanged(e))
    [] OTHER -> FALSE
\* ---- writers: the three machines of StreamWriter.tla, positions and lengths only ------------------------------------------------------
SameLen(e) == e.len1 = e.len0 /\ e.len1Big = e.len0Big
\* a writer over a caller's buffer: the length is the buffer's, a step that would leave it changes nothing
FixedW(e) ==
  LET rem == e.len0 - e.p0 IN
  /\ SameLen(e) /\ e.p0 <= e.len0 /\ e.p1 <= e.len1
  /\ CASE e.op = "Write" -> (e.ok <=> (~e.aBig /\ e.a <= rem)) /\ (IF e.ok THEN e.p1 = e.p0 + e.a ELSE Unchanged(e))
       [] e.op = "Seek" -> (e.ok <=> (~e.aBig /\ e.a <= e.len0)) /\ (IF e.ok THEN e.p1 = e.a ELSE Unchanged(e))
       [] e.op = "SeekForward" -> (e.ok <=> (~e.aBig /\ e.a <= rem)) /\ (IF e.ok THEN e.p1 = e.p0 + e.a ELSE Unchanged(e))
       [] e.op = "SeekBackward" -> (e.ok <=> (~e.aBig /\ e.a <= e.p0)) /\ (IF e.ok THEN e.p1 = e.p0 - e.a ELSE Unchanged(e))
       [] OTHER -> FALSE
\* a growing writer: the position IS the length; append, zero fill on forward seek, truncation on backward seek
GrowW(e) ==
  /\ e.p0 = e.len0 /\ e.p1 = e.len1
  /\ CASE e.op = "Write" -> ~e.aBig => (e.ok /\ e.len1 = e.len0 + e.a)
       [] e.op = "SeekForward" -> IF e.ok THEN (~e.aBig => e.len1 = e.len0 + e.a) ELSE SameLen(e)
       [] e.op = "SeekBackward" -> (e.ok <=> (~e.aBig /\ e.a <= e.len0)) /\ (IF e.ok THEN e.len1 = e.len0 - e.a ELSE SameLen(e))
       [] e.op = "Seek" -> IF e.ok THEN (~e.aBig => e.len1 = e.a) ELSE SameLen(e)
       [] OTHER -> FALSE
\* a file writer: position independent of the length, a write lands at the position and extends the file if it ends beyond it
FileW(e) ==
  CASE e.op = "Write" -> ~e.aBig => (e.ok /\ e.p1 = e.p0 + e.a /\ e.len1 = (IF e.a > 0 /\ e.p0 + e.a > e.len0 THEN e.p0 + e.a ELSE e.len0))
    [] e.op = "Seek" -> SameLen(e) /\ ((e.ok /\ ~e.aBig) => e.p1 = e.a)
    [] e.op = "SeekForward" -> SameLen(e) /\ (IF e.ok THEN (~e.aBig => e.p1 = e.p0 + e.a) ELSE Unchanged(e))
    [] e.op = "SeekBackward" -> SameLen(e) /\ (e.ok <=> (~e.aBig /\ e.a <= e.p0)) /\ (IF e.ok THEN e.p1 = e.p0 - e.a ELSE Unchanged(e))
    [] OTHER -> FALSE
Allowed(e) == IF e.e = "Reset" THEN TRUE
              ELSE Small(e) =>
                   CASE e.kind = "fixed" -> FixedW(e) [] e.kind = "grow" -> GrowW(e) [] e.kind = "filew" -> FileW(e)
                     [] e.kind = "file" -> SameLen(e) /\ File(e)                        \* no reader operation changes the length
                     [] OTHER -> SameLen(e) /\ Bounded(e)
Next == l <= Len(Log) /\ Allowed(Ev) /\ l' = l + 1
Spec == Init /\ [][Next]_l
Accepted == TLCGet("stats").diameter - 1 = Len(Log)
================================================================================
