---- MODULE MC_LzhRun ----
(***************************************************************************************************)
(* C04, capacity clause at the real constants.  LzhMachine's invariants RootCounts and                *)
(* CapacityOnlyAtLimit (checked by TLC for several values of MaxCount on several inputs) say: whatever   *)
(* the input, the decoder accepts exactly MaxCount - NSym codes and the next one ends decoding in an     *)
(* error.  For a stream that encodes `count` copies of one literal the outcome is therefore fully          *)
(* determined: min(count, MaxCount - NSym) bytes of that literal, then an error iff count exceeds it.      *)
(* The harness produces such a stream with the (separately validated, C15) encoder side of the real tree.   *)
(* The last byte's padding bits decode to further codes of the same literal (its code is one bit long by     *)
(* then), so the scenario carries the outcome for count .. count + 7 codes and the harness selects the entry    *)
(* for the number of padding bits it had to add.                                                               *)
(***************************************************************************************************)
EXTENDS Naturals, Sequences, TLC, Json
CONSTANTS NSym, MaxCount
VARIABLES done
Capacity == MaxCount - NSym
Min(x, y) == IF x < y THEN x ELSE y
Outcome(count) == [delivered |-> Min(count, Capacity), err |-> count > Capacity]
Init == done = FALSE
Next == /\ ~done /\ done' = TRUE
        /\ \A sym \in {0, 65, 255} : \A count \in {Capacity - 1, Capacity, Capacity + 1, Capacity + 79} :
             PrintT("S|" \o ToJson([id |-> <<sym, count>>, steps |-> << [op |-> "lzh_literal_run", sym |-> sym, count |-> count,
                                      outcomes |-> [pad \in 1..8 |-> Outcome(count + pad - 1)]] >>]))
Spec == Init /\ [][Next]_done
====
