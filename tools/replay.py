#!/usr/bin/env python3
"""Replay of a reported violation:  tools/replay.py /verif/out/<id>/<file>.json
The replay file names the property, the signature (site/kind) and the first failing scenario or walk.  The check of that
property and tier is run again on a fresh build of /repo's working tree; exit 1 if the same signature is reported again."""
import json, os, subprocess, sys
VERIF = os.path.dirname(os.path.dirname(os.path.abspath(__file__)))
r = json.load(open(sys.argv[1]))
print("property", r["property"], "signature", r["signature"])
print("first occurrence:", json.dumps(r.get("first"), indent=1)[:3000])
tier = "thorough" if os.path.basename(sys.argv[1]).startswith("thorough") else "quick"
p = subprocess.run([sys.executable, os.path.join(VERIF, "tools", "check.py"), r["property"], tier], capture_output=True, text=True, cwd=VERIF)
again = r["signature"] in p.stdout
print("reproduced" if again else "not reproduced")
sys.exit(1 if again else 0)
