#!/usr/bin/env python3
"""Binding demonstration: run the registered checks against changed copies of /repo and report which change is caught.

  tools/mutants.py reverts [--only <commit>...]   every 'fixed:' entry of known_findings.txt: the fix commit is reverted in a
                                                  scratch worktree and the checks of the properties it lists must go red
  tools/mutants.py refactors                      every /verif/refactors/<name>/patch.diff (a behaviour-preserving refactoring written by an
                                                  independent sub-agent) is applied to a scratch worktree and ALL checks must stay green
  tools/mutants.py seeded  [--only <id>...]       every /verif/seeded/<id>/patch.diff is applied to a scratch worktree and the
                                                  checks of meta.json's property must go red
  options: --tier quick|thorough   --jobs N   --all-props (run all 20 checks on every mutant: false-alarm matrix)   --props Cxx... (exactly these checks)

Nothing is changed in /repo itself: each mutant lives in its own `git worktree` under $TMPDIR which is removed afterwards.
The checks are pointed at the worktree through VERIF_REPO.  Results are written to seeded/RESULTS.json and printed."""
import json, os, re, shutil, subprocess, sys, tempfile, time
from concurrent.futures import ThreadPoolExecutor

VERIF = os.path.dirname(os.path.dirname(os.path.abspath(__file__)))
REPO = "/repo"
ALL = ["C%02d" % i for i in range(1, 21)]
PROPS_OVERRIDE = []


def sh(cmd, **kw):
    return subprocess.run(cmd, shell=isinstance(cmd, str), capture_output=True, text=True, errors="replace", **kw)


def fixed_entries():
    out = {}
    for line in open(os.path.join(VERIF, "known_findings.txt")):
        m = re.match(r"fixed:\s+property=(\S+)\s+(\S+)\s+(.*)", line.strip())
        if m:
            out.setdefault(m.group(2), dict(props=[], what=m.group(3)))["props"].append(m.group(1))
    return out


def seeded_entries():
    out = {}
    d = os.path.join(VERIF, "seeded")
    for name in sorted(os.listdir(d)) if os.path.isdir(d) else []:
        meta = os.path.join(d, name, "meta.json")
        if os.path.exists(meta):
            m = json.load(open(meta))
            props = m["property"] if isinstance(m["property"], list) else [m["property"]]
            if m.get("equivalent_since"):
                props = []                   # behaviour-preserving since the named fix commit (see meta.json): nothing is expected to go red
            out[name] = dict(props=props, what=m.get("summary", ""), patch=os.path.join(d, name, "patch.diff"))
    return out


def refactor_entries():
    """Behaviour-preserving refactorings (/verif/refactors/<name>/patch.diff): every check must stay green on them."""
    out = {}
    d = os.path.join(VERIF, "refactors")
    for name in sorted(os.listdir(d)) if os.path.isdir(d) else []:
        patch = os.path.join(d, name, "patch.diff")
        if os.path.exists(patch):
            out[name] = dict(props=[], what="behaviour-preserving refactoring", patch=patch)
    return out


def run_mutant(kind, key, entry, tier, all_props):
    wt = tempfile.mkdtemp(prefix=f"op2mut.{key}.", dir=os.environ.get("TMPDIR", "/tmp"))
    os.rmdir(wt)
    res = dict(mutant=key, kind=kind, what=entry["what"], expected=entry["props"], results={})
    try:
        r = sh(["git", "-C", REPO, "worktree", "add", "--detach", wt, "HEAD"])
        if r.returncode:
            res["error"] = "worktree: " + r.stderr[-300:]
            return res
        if kind == "revert":
            p = sh(f"git -C {REPO} show {key} | git -C {wt} apply -R")
            if p.returncode:
                p = sh(f"git -C {REPO} show {key} | git -C {wt} apply -R --3way")
                if p.returncode or sh(["git", "-C", wt, "diff", "--name-only", "--diff-filter=U"]).stdout.strip():
                    sh(["git", "-C", wt, "reset", "--hard", "HEAD"])
                    for hc in json.load(open(os.path.join(VERIF, "MANIFEST.json")))["hooks"].get("source_commits", []):
                        sh(f"git -C {REPO} show {hc} | git -C {wt} apply -R")
                    p = sh(f"git -C {REPO} show {key} | git -C {wt} apply -R")
                    res["note"] = "reverted on the tree without the verification hooks"
        else:
            p = sh(["git", "-C", wt, "apply", entry["patch"]])
            if p.returncode:                  # the tree has moved on since the change was written (later fix / hook commits): merge it
                p = sh(["git", "-C", wt, "apply", "--3way", entry["patch"]])
                if p.returncode == 0 and sh(["git", "-C", wt, "diff", "--name-only", "--diff-filter=U"]).stdout.strip():
                    p.returncode, p.stderr = 1, "merge conflict"
                if p.returncode:              # the change rewrites lines a verification hook sits next to: evaluate it on the tree without the hooks
                    sh(["git", "-C", wt, "reset", "--hard", "HEAD"])
                    for hc in json.load(open(os.path.join(VERIF, "MANIFEST.json")))["hooks"].get("source_commits", []):
                        sh(f"git -C {REPO} show {hc} | git -C {wt} apply -R")
                    p = sh(["git", "-C", wt, "apply", entry["patch"]])
                    res["note"] = "applied to the tree without the verification hooks"
        if p.returncode:
            res["error"] = "patch does not apply: " + p.stderr[-300:]
            return res
        props = PROPS_OVERRIDE or (ALL if all_props else entry["props"])
        env = dict(os.environ, VERIF_REPO=wt, VERIF_SCRATCH=os.environ.get("TMPDIR", "/tmp"), VERIF_NO_EVIDENCE="1")
        for pid in props:
            t0 = time.time()
            c = sh([sys.executable, os.path.join(VERIF, "tools", "check.py"), pid, tier], env=env, cwd=VERIF)
            sigs = re.findall(r"signature (\S+):", c.stdout)
            res["results"][pid] = dict(rc=c.returncode, violations=c.stdout.count("VIOLATION property="), signatures=sigs[:6],
                                       wall_s=round(time.time() - t0, 1), err=(c.stderr[-400:] if c.returncode == 2 else ""))
    finally:
        sh(["git", "-C", REPO, "worktree", "remove", "--force", wt])
        shutil.rmtree(wt, ignore_errors=True)
    return res


def main():
    args = sys.argv[1:]
    if not args or args[0] not in ("reverts", "seeded", "refactors"):
        print(__doc__)
        return 2
    kind = "revert" if args[0] == "reverts" else ("seeded" if args[0] == "seeded" else "refactor")
    tier, jobs, only, all_props = "quick", 4, [], False
    i = 1
    while i < len(args):
        if args[i] == "--tier":
            tier = args[i + 1]; i += 2
        elif args[i] == "--jobs":
            jobs = int(args[i + 1]); i += 2
        elif args[i] == "--props":                   # run exactly these checks on every mutant (e.g. to re-examine one cell of the false-alarm matrix)
            i += 1
            while i < len(args) and not args[i].startswith("--"):
                PROPS_OVERRIDE.append(args[i]); i += 1
        elif args[i] == "--all-props":
            all_props = True; i += 1
        elif args[i] == "--only":
            i += 1
            while i < len(args) and not args[i].startswith("--"):
                only.append(args[i]); i += 1
        else:
            i += 1
    entries = fixed_entries() if kind == "revert" else (seeded_entries() if kind == "seeded" else refactor_entries())
    if kind == "refactor":
        all_props = True
    if only:
        entries = {k: v for k, v in entries.items() if k in only}
    with ThreadPoolExecutor(max_workers=jobs) as ex:
        results = list(ex.map(lambda kv: run_mutant(kind, kv[0], kv[1], tier, all_props), entries.items()))
    missed = 0
    for r in results:
        if "error" in r:
            print(f"{r['mutant']}: ERROR {r['error']}")
            missed += 1
            continue
        for pid, x in r["results"].items():
            expected = pid in r["expected"]
            status = "CAUGHT" if x["rc"] == 1 else ("machinery-failure" if x["rc"] == 2 else "not caught")
            if expected and x["rc"] != 1:
                missed += 1
            if kind == "refactor" and x["rc"] != 0:
                missed += 1                      # a false alarm (or a machinery failure) on behaviour-preserving code
            if expected or x["rc"] != 0:
                print(f"{r['mutant']:10s} {pid} {'(expected)' if expected else '(other)   '} {status:18s} {x['wall_s']:6.1f}s {' '.join(x['signatures'][:3])} {x['err'][:200]}")
    out = os.path.join(VERIF, "seeded", f"RESULTS_{kind}.json")
    os.makedirs(os.path.dirname(out), exist_ok=True)
    json.dump(results, open(out, "w"), indent=1)
    print("missed:", missed)
    return 1 if missed else 0


if __name__ == "__main__":
    sys.exit(main())
