#!/usr/bin/env python3
"""Writes /verif/MANIFEST.json from the table below (one source of truth for what is claimed).
Run after changing what a check does:   python3 tools/manifest_gen.py"""
import json, os

VERIF = os.path.dirname(os.path.dirname(os.path.abspath(__file__)))

G_SCEN = ("TLC enumerates the bounded instance of the TLA+ module, checks the model-level properties on it and "
          "exports every behaviour as a scenario; the scenario interpreter replays each on a sanitizer build of "
          "/repo's working tree and compares every observation with the specification")
TRUST = ("TLC 1.8, the TLA+ modules in /verif/spec as the independent description, the harness's format-agnostic "
         "segment expansion, clang ASan/UBSan as the observer of memory safety; bounded constants as stated in the evidence")

# id -> (technique, level text, design ref, has thorough)
CHECKS = {
    "C01": ("TLA+ VOL layout spec + TLC behaviour export replayed on the code",
            "Every file set of the bounded pool (names hitting the order corners, all size residues, chunk-boundary blobs, "
            "every listing order, four path spellings) is packed by the real CreateArchive; the bytes must equal the spec layout, "
            "the reopened listing, lookups in every case, streams and extractions must equal the spec's archive object."),
    "C02": ("TLA+ VOL format invariants (TLC) + independent reference encoder replayed on the reader",
            "TLC asserts WellFormed (tiling, name offsets, alignment, contiguity, binary search) on every enumerated layout and the "
            "writer's bytes must equal that layout; archives from the spec's independent encoder (unused slots, index slack, LZH members) "
            "are opened by the real VolFile and names, sizes, kinds, stored bytes and decoded payloads compared."),
    "C03": ("TLA+ CLM/RIFF layout spec + TLC behaviour export replayed on the code",
            "WAV sets with extra chunks before/between/after, both fmt sizes, differing formats, 8/9-character and duplicate names: "
            "CLM bytes equal the spec layout, listing/streams/extracted canonical WAVs equal the spec."),
    "C04": ("TLA+ LZH reference decoder/encoder + drain state machine; G replay and V trace validation",
            "Token sequences and raw byte strings are decoded by the spec; the real HuffLZ must return the same bytes under every "
            "enumerated drain schedule on both interfaces; capacity-crossing inputs must end in an error after a prefix of the reference output."),
    "C05": ("TLA+ fault model over VOL/CLM/WAV images (G) + loose-contract trace validation (V) under sanitizers",
            "Every prefix, every integer field x boundary value and coordinated pairs of valid archives, each with call scripts on a long-lived and "
            "on fresh objects; TLC validates the recorded outcomes against the loose contract (responses are a function of the image, delivered "
            "streams equal image[extent], extents outside the file refused)."),
    "C06": ("TLA+ map layout + edit state machine; TLC behaviour export replayed on the code",
            "Spec-encoded maps are read, every field compared, rewritten bytes compared with the normal form, re-read and re-written; "
            "edit sequences are replayed with the serialisation compared after every edit."),
    "C07": ("TLA+ map/saved-game fault model replayed under sanitizers against the loose contract",
            "All prefixes and boundary-valued header/count fields of valid maps and saved games; outcome must be an ordinary error or a map with "
            "tiles = width x height and power-of-two width; prefixes cutting the consumed part refused; saved game = map equivalence."),
    "C08": ("TLA+ indexed-BMP layout spec + TLC behaviour export replayed on the code",
            "Bitmaps of depths 1/4/8, widths over every row-bit residue, heights of both signs, full and partial palettes; factories; flips."),
    "C09": ("TLA+ custom-tileset layout spec + TLC behaviour export replayed on the code",
            "Pictures in both orientations and formats, detector over signature patterns and positions, constraint violations on both paths."),
    "C10": ("TLA+ PRT layout spec + TLC behaviour export replayed on the code",
            "PRT values over palettes/images/animations/frames with all flag combinations; decode/encode both ways, rule violations refused."),
    "C11": ("TLA+ fault model over BMP/tileset/PRT images replayed under sanitizers; follow-up operations as spec actions",
            "Prefixes, boundary field values and wrap-around witnesses; every follow-up operation on a returned object must be an ordinary error or succeed cleanly."),
    "C12": ("TLA+ reader state machine: TLC exports the full transition relation, harness walks it on the real readers",
            "All walks to the stated depth plus seeded random walks over memory reader, memory slice and file slice with symbolic huge/wrap arguments; "
            "bytes, counts, positions, lengths and refusals compared at every step; TLC checks PosInBounds and the failed-step frame."),
    "C13": ("TLA+ reader-forest state machine: transition relation walked on all five backends",
            "Slices, slices of slices, drops; Confined and Independence checked by TLC; every transition replayed on memory, file and slice backends."),
    "C14": ("TLA+ writer state machines (fixed, growing, copy loop, open-flag matrix): relation walked / scenarios replayed",
            "Guard-zoned fixed buffers, growing writer, size-prefixed writes, chunked copy over all (length, chunk, start, backend), FileWriter flag matrix."),
    "C15": ("TLA+ adaptive Huffman state machine: exhaustive small-tree behaviours replayed (G) + 314-symbol histories validated by TLC (V)",
            "All update sequences to a depth bound on 2..6 symbols with shape and encoder paths compared after every update; long recorded histories "
            "up to and across capacity validated against the spec's Update."),
    "C16": ("TLA+ tile addressing/bit-field spec: TLC checks Bijective; probes and field tables replayed; invariant monitored on the code",
            "Expected indices for boundary coordinates of every width x height class, all cell types and mapping indices, out-of-range refusals."),
    "C17": ("TLA+ resource-resolution spec: TLC enumerates directory layouts x queries, replayed on a real ResourceManager",
            "Loose files, VOL/CLM archives with overlapping members, archive-named directories; every query in every case variant."),
    "C18": ("TLA+ determinism memo: observations recorded across environments (fills, compilers, ASLR, orders, spellings) validated by TLC",
            "Each serialisation/parsing scenario must produce the same digest in every environment; Trace_Determinism rejects the first deviation."),
    "C19": ("TLA+ Names module: order laws checked by TLC on all triples; relation exported and compared; path laws validated on the recorded relation",
            "All strings to the length bound over the mixed alphabet; all 2^32 inputs of the power-of-two test."),
    "C20": ("TLA+ limits spec over wide arithmetic: must-refuse vectors replayed with sparse files under RLIMIT_FSIZE",
            "Member sizes at 2^31-1/2^31/2^32-1/2^32, offset sums crossing 2^32, CLM totals, names of 8/9, containers at prefix limits, layer-count mismatches."),
}

NOT_YET = {}    # id -> reason (properties not claimed)


def main():
    checks = []
    for pid, (tech, text) in sorted(CHECKS.items()):
        if pid in NOT_YET:
            continue
        checks.append(dict(
            property_id=pid,
            quick_cmd=f"python3 tools/check.py {pid} quick",
            thorough_cmd=f"python3 tools/check.py {pid} thorough",
            evidence_file=f"/verif/evidence/{pid}.json",
            replay_cmd_template="python3 tools/replay.py {path}",
            engine="tlc+harness",
            level_claimed=dict(category="model_checking", text=text + "  " + G_SCEN + ".", design_ref=f"DESIGN.md section 6, {pid}"),
            level_note=TRUST,
            technique=tech))
    m = dict(
        version=1,
        setup_cmd="python3 tools/setup.py",
        hooks=dict(guard="OP2UTILITY_VERIF",
                   enable="checks copy /repo's working tree to a scratch directory and build it with -DOP2UTILITY_VERIF; the only hook code is "
                          "src/Stream/VerifTrace.h plus one OP2UTILITY_VERIF_SCOPE line at the top of each reader (MemoryReader / FileReader / SliceReader) and writer (MemoryWriter / DynamicMemoryWriter / FileWriter) operation: "
                          "with the environment variable OP2UTILITY_VERIF_TRACE set, every stream operation appends one JSON line (used to validate the "
                          "repository's own test suite against Trace_StreamOps.tla in C12 / C13); everything else is observed through the public API",
                   baseline_off_cmd="make -C /repo -j8 -k check",
                   source_commits=["ee937de", "fd69ab6"], add_only=True),
        engines=[dict(name="tlc+harness", path="/verif/tools/check.py", serves_properties=sorted(set(CHECKS) - set(NOT_YET)),
                      kind_free_text="TLA+ specifications in /verif/spec checked and enumerated by TLC; C++ conformance harnesses in /verif/harness "
                                     "replay TLC-generated behaviours on the code (pipeline G) and record executions that TLC validates (pipeline V); "
                                     "Apalache discharges inductive invariants of two data-free abstract machines (DrainBounds, CopyBounds) that the TLC-explored machines refine")],
        checks=checks,
        notes="See DESIGN.md. known_findings.txt lists genuine defects (fixed ones as 'fixed:' entries, which suppress nothing).",
        not_applicable=[dict(property_id=p, reason=r) for p, r in sorted(NOT_YET.items())])
    json.dump(m, open(os.path.join(VERIF, "MANIFEST.json"), "w"), indent=1)
    print("MANIFEST.json written:", len(checks), "checks,", len(NOT_YET), "not claimed")


if __name__ == "__main__":
    main()
