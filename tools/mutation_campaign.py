#!/usr/bin/env python3
"""Development aid, not a registered check:  tools/mutation_campaign.py [--per N] [--jobs J] [--seed S] [Cxx ...]

A small mutation-testing campaign restricted to the code each property is anchored in (properties.jsonl: anchors.files).
For every selected property it enumerates first-order mutants of the anchored source files with a handful of line-level
operators (relational operator replacement, off-by-one constants, && <-> ||, dropped guard of a throw, true <-> false),
samples N of them, and for each one
   1. applies it to a persistent scratch worktree of /repo (never to /repo itself) and runs the repository's own test suite:
      a mutant the suite kills is not "realistic breakage" in the sense of the brief and is skipped;
   2. runs the property's quick check against the worktree (VERIF_REPO): exit 1 = caught, exit 0 = survived.
Survivors are either equivalent mutants or holes in the reach of the check; they are written with their diff to
out/mutation/<pid>.txt for triage.  Nothing is decided by this tool."""
import json, os, random, re, shutil, subprocess, sys, tempfile, time
from concurrent.futures import ThreadPoolExecutor
import queue

VERIF = os.path.dirname(os.path.dirname(os.path.abspath(__file__)))
REPO = "/repo"

OPS = [
    (r"<=", "<", "<= -> <"), (r"(?<![<\-=!>])<(?![<=])", "<=", "< -> <="), (r">=", ">", ">= -> >"),
    (r"(?<![>\-=])>(?![>=])", ">=", "> -> >="), (r"==", "!=", "== -> !="), (r"!=", "==", "!= -> =="),
    (r"&&", "||", "&& -> ||"), (r"\|\|", "&&", "|| -> &&"),
    (r"\+ 1\b", "+ 2", "+1 -> +2"), (r"- 1\b", "- 0", "-1 -> -0"), (r"\+ 3\b", "+ 2", "+3 -> +2"), (r"~3\b", "~1", "~3 -> ~1"),
    (r"\btrue\b", "false", "true -> false"), (r"\bfalse\b", "true", "false -> true"),
    (r"\+=", "-=", "+= -> -="), (r"(?<![\w>)\]])\s-=\s", " += ", "-= -> +="),
]


def sh(cmd, **kw):
    return subprocess.run(cmd, shell=isinstance(cmd, str), capture_output=True, text=True, errors="replace", **kw)


def mutants_of(path, rel):
    out = []
    lines = open(path).read().split("\n")
    in_comment = False
    for i, line in enumerate(lines):
        code = line.split("//")[0]
        st = code.strip()
        if st.startswith("/*"):
            in_comment = True
        if in_comment:
            if "*/" in st:
                in_comment = False
            continue
        if not st or st.startswith("#") or st.startswith("template") or "static_assert" in st or "std::" in st and "<" in st and ">" in st and "(" not in st:
            continue
        if "throw " in st or "runtime_error" in st or st.startswith("\"") or "include" in st:
            continue
        for pat, rep, name in OPS:
            for m in re.finditer(pat, code):
                # skip template brackets / stream operators / arrows heuristically
                ctx = code[max(0, m.start() - 12):m.end() + 12]
                if name in ("< -> <=", "> -> >=") and re.search(r"\w<[\w:, \*]+>|std::|static_cast|unique_ptr|vector|array|template|->", ctx):
                    continue
                new = code[:m.start()] + rep + code[m.end():] + line[len(code):]
                out.append(dict(file=rel, line=i + 1, op=name, old=line, new=new))
        # dropped guard: "if (cond) {" directly followed by a throw
        if re.match(r"\s*if \(.*\)\s*\{?\s*$", code) and i + 1 < len(lines) and "throw" in lines[i + 1] + (lines[i + 2] if i + 2 < len(lines) else ""):
            new = re.sub(r"if \((.*)\)", "if (false)", code, count=1) + line[len(code):]
            out.append(dict(file=rel, line=i + 1, op="guard of a throw dropped", old=line, new=new))
    return out


def main():
    args = sys.argv[1:]
    per, jobs, seed = 10, 4, 1
    props = []
    i = 0
    while i < len(args):
        if args[i] == "--per": per = int(args[i + 1]); i += 2
        elif args[i] == "--jobs": jobs = int(args[i + 1]); i += 2
        elif args[i] == "--seed": seed = int(args[i + 1]); i += 2
        else: props.append(args[i]); i += 1
    P = {json.loads(l)["id"]: json.loads(l) for l in open(os.path.join(VERIF, "properties.jsonl"))}
    props = props or sorted(P)
    rng = random.Random(seed)
    work = []
    for pid in props:
        ms = []
        for rel in P[pid]["anchors"]["files"]:
            path = os.path.join(REPO, rel)
            if os.path.exists(path) and rel.startswith("src/"):
                ms += mutants_of(path, rel)
        rng.shuffle(ms)
        for m in ms[:per]:
            work.append((pid, m))
    print(f"{len(work)} mutants over {len(props)} properties", flush=True)
    base = tempfile.mkdtemp(prefix="op2mc.", dir=os.environ.get("TMPDIR", "/tmp"))
    wts = queue.Queue()
    for k in range(jobs):
        wt = os.path.join(base, f"w{k}")
        r = sh(["git", "-C", REPO, "worktree", "add", "--detach", wt, "HEAD"])
        assert r.returncode == 0, r.stderr
        sh(f"make -C {wt} -j8 check", timeout=3000)          # prebuild library and tests once
        wts.put(wt)
    results = []
    os.makedirs(os.path.join(VERIF, "out", "mutation"), exist_ok=True)

    def one(job):
        pid, m = job
        wt = wts.get()
        try:
            path = os.path.join(wt, m["file"])
            lines = open(path).read().split("\n")
            if lines[m["line"] - 1] != m["old"]:
                return dict(pid=pid, m=m, status="stale")
            lines[m["line"] - 1] = m["new"]
            open(path, "w").write("\n".join(lines))
            try:
                t = sh(f"make -C {wt} -j6 check", timeout=900)
                passed = re.search(r"\[  PASSED  \] (\d+) tests", t.stdout)
                if t.returncode != 0 or not passed or "FAILED" in t.stdout:
                    status = "does-not-build" if "error:" in (t.stdout + t.stderr) else "killed-by-suite"
                    return dict(pid=pid, m=m, status=status)
                env = dict(os.environ, VERIF_REPO=wt, VERIF_NO_EVIDENCE="1")
                c = sh([sys.executable, os.path.join(VERIF, "tools", "check.py"), pid, "quick"], env=env, cwd=VERIF, timeout=3000)
                sig = re.findall(r"signature (\S+):", c.stdout)
                return dict(pid=pid, m=m, status={0: "SURVIVED", 1: "caught", 2: "machinery-failure"}.get(c.returncode, "?"), sig=sig[:2],
                            err=c.stderr[-300:] if c.returncode == 2 else "")
            except subprocess.TimeoutExpired:
                return dict(pid=pid, m=m, status="timeout")
            finally:
                sh(["git", "-C", wt, "checkout", "--", "."])
        finally:
            wts.put(wt)
    with ThreadPoolExecutor(max_workers=jobs) as ex:
        for r in ex.map(one, work):
            results.append(r)
            json.dump(results, open(os.path.join(VERIF, "out", "mutation", "results.partial.json"), "w"))
            print(f"{r['pid']} {r['status']:18s} {r['m']['file']}:{r['m']['line']} {r['m']['op']}  {' '.join(r.get('sig', []))}", flush=True)
    for k in range(jobs):
        sh(["git", "-C", REPO, "worktree", "remove", "--force", os.path.join(base, f"w{k}")])
    sh(["git", "-C", REPO, "worktree", "prune"])
    shutil.rmtree(base, ignore_errors=True)
    outdir = os.path.join(VERIF, "out", "mutation")
    os.makedirs(outdir, exist_ok=True)
    json.dump(results, open(os.path.join(outdir, "results.json"), "w"), indent=1)
    with open(os.path.join(outdir, "survivors.txt"), "w") as f:
        for r in results:
            if r["status"] in ("SURVIVED", "machinery-failure", "timeout"):
                f.write(f"{r['pid']} {r['status']} {r['m']['file']}:{r['m']['line']} [{r['m']['op']}]\n  - {r['m']['old'].strip()}\n  + {r['m']['new'].strip()}\n  {r.get('err', '')}\n")
    from collections import Counter
    print(Counter(r["status"] for r in results))


if __name__ == "__main__":
    main()
