#!/usr/bin/env python3
"""Entry point of every registered check:   tools/check.py <property id> quick|thorough

Every check (1) has TLC check the model-level properties of the relevant TLA+ modules in /verif/spec on a bounded
instance and export its behaviours, (2) builds /repo's *current working tree* with sanitizers in a scratch directory,
(3) binds the two: pipeline G replays the exported behaviours on the real code and compares every observation,
pipeline V records executions of the real code and has TLC validate them against the specification, and
(4) classifies every disagreement by signature against known_findings.txt, writes evidence/<id>.json and exits
0 (held) / 1 (VIOLATION lines printed) / 2 (the machinery itself failed; nothing is claimed)."""
import json, os, sys, time
sys.path.insert(0, os.path.dirname(os.path.abspath(__file__)))
import vlib
import parts

CHECKS = {
    "C01": parts.c01, "C02": parts.c02, "C03": parts.c03, "C04": parts.c04, "C05": parts.c05,
    "C06": parts.c06, "C07": parts.c07, "C08": parts.c08, "C09": parts.c09, "C10": parts.c10,
    "C11": parts.c11, "C12": parts.c12, "C13": parts.c13, "C14": parts.c14, "C15": parts.c15,
    "C16": parts.c16, "C17": parts.c17, "C18": parts.c18, "C19": parts.c19, "C20": parts.c20,
    # beyond the listed properties (not registered in MANIFEST.json; see DESIGN.md 0.6)
    "X01": parts.x01, "X02": parts.x02,
}


def main():
    if len(sys.argv) < 2 or sys.argv[1] not in CHECKS:
        print("usage: check.py <C01..C20> [quick|thorough]", file=sys.stderr)
        return 2
    pid = sys.argv[1]
    tier = sys.argv[2] if len(sys.argv) > 2 else os.environ.get("VERIF_TIER", "quick")
    if tier not in ("quick", "thorough"):
        tier = "quick"
    os.environ["VERIF_TIER"] = tier
    t0 = time.time()
    run = parts.Run(pid, tier)
    CHECKS[pid](run)
    return run.finish(round(time.time() - t0, 1))


if __name__ == "__main__":
    vlib.main_guard(main)
