#!/usr/bin/env python3
"""Entry point of every registered check:   tools/check.py <property id> quick|thorough

Scenario-style properties are table driven: TLC runs an MC_* instance that prints scenarios (spec/Scen.tla
vocabulary), harness/scen_run executes them against a sanitizer build of /repo's working tree."""
import json, os, sys, time
sys.path.insert(0, os.path.dirname(os.path.abspath(__file__)))
import vlib

# property -> list of generator runs: (MC module, {tier: constants}, tag, needs small heap)
SCENARIO_CHECKS = {
    "C01": [("MC_Vol", {"quick": {"MaxFiles": 2}, "thorough": {"MaxFiles": 3}})],
    "C03": [("MC_Clm", {"quick": {"MaxFiles": 2}, "thorough": {"MaxFiles": 3}})],
    "C04": [("MC_Lzh", {"quick": {"NSym": 314, "MaxCount": 65535, "MaxToks": 2}, "thorough": {"NSym": 314, "MaxCount": 65535, "MaxToks": 3}})],
    "C06": [("MC_Map", {"quick": {"Tier": '"quick"'}, "thorough": {"Tier": '"thorough"'}})],
    "C08": [("MC_Bmp", {"quick": {"MaxWidth": 40}, "thorough": {"MaxWidth": 70}})],
    "C10": [("MC_Prt", {"quick": {}, "thorough": {}})],
    "C15": [("MC_Huffman", {"quick": {"NSym": n, "Depth": d, "MaxCount": 1000}, "thorough": {"NSym": n, "Depth": d + 1, "MaxCount": 1000}})
            for n, d in ((2, 10), (3, 7), (4, 6), (5, 5), (6, 4))],
    "C17": [("MC_ResMgr", {"quick": {}, "thorough": {}})],
}
# which scenario steps speak about which property when a generator serves several (prefix of the site after "<pid>.")
ALIASES = {"C09": ("C08", ("tileset", "ts_detect", "tileset_bad")), "C16": ("C06", ("map_probe", "map_edits/cell", "map_edits/lava"))}
OWN_SITES = {"C08": ("bmp_",), "C06": ("map_roundtrip", "map_edits")}


def cfg_text(constants, invariants=()):
    t = ""
    if constants:
        t += "CONSTANTS\n" + "".join(f"  {k} = {v}\n" for k, v in constants.items())
    t += "SPECIFICATION Spec\nCHECK_DEADLOCK FALSE\n"
    for i in invariants:
        t += f"INVARIANT {i}\n"
    return t


def run_scenarios(pid, tier):
    src_pid, only = pid, None
    if pid in ALIASES:
        src_pid, only = ALIASES[pid]
    t0 = time.time()
    src, lib = vlib.build_impl()
    harness = vlib.build_harness("scen_run", src, lib)
    work = os.path.join(os.environ.get("VERIF_SHM", "/dev/shm"), os.path.basename(vlib.scratch()))
    os.makedirs(work, exist_ok=True)
    import atexit, shutil
    atexit.register(lambda: shutil.rmtree(work, ignore_errors=True))
    states = generated = scen = steps = 0
    mism, samples = [], []
    for gi, (module, consts) in enumerate(SCENARIO_CHECKS[src_pid]):
        c = consts[tier]
        cfg = os.path.join(vlib.scratch(), f"{module}_{gi}.cfg")
        inv = ("Inv", "Export") if module == "MC_Huffman" else ()
        open(cfg, "w").write(cfg_text(c, inv))
        r = vlib.run_tlc(module, cfg, tags=("S",), workers=(8 if module == "MC_Huffman" else 1), small_heap=(module == "MC_Lzh"))
        if r["violation"] or not r["ok"]:
            raise vlib.MachineryError(f"{module}: the specification instance did not pass its own checks:\n" + r["stdout"][-2500:])
        recs = r["records"]["S"]
        if not recs:
            raise vlib.MachineryError(f"vacuity: {module} produced no scenario")
        states += r.get("distinct", 0); generated += r.get("generated", 0)
        sf = os.path.join(vlib.scratch(), f"{module}_{gi}.ndjson")
        with open(sf, "w") as f:
            for s in recs:
                f.write(json.dumps(s) + "\n")
        if len(samples) < 2:
            s0 = json.dumps(recs[len(recs) // 2])
            samples.append(json.loads(s0) if len(s0) < 4000 else {"id": recs[len(recs) // 2]["id"], "ops": [x["op"] for x in recs[len(recs) // 2]["steps"]]})
        res = vlib.run_isolated([harness, "--scenarios", sf, "--workdir", work, "--prop", pid], max_crashes=80)
        scen += res["summary"].get("scenarios", 0); steps += res["summary"].get("steps", 0)
        mism += res["mismatches"]
    # keep only the disagreements that speak about this property
    def mine(m):
        site = m["site"].split(".", 1)[1] if "." in m["site"] else m["site"]
        if only is not None:
            return site.startswith(only)
        other = [p for p, (s, pre) in ALIASES.items() if s == src_pid for p in [pre]]
        if pid == "C06" and m["kind"] == "getter":
            return False                    # accessor faithfulness is C16's clause
        return not any(site.startswith(pre) for pre in other) or any(site.startswith(o) for o in OWN_SITES.get(pid, ()))
    mism = [m for m in mism if mine(m)]
    ev = dict(coverage=dict(states=max(states, 1), transitions=max(generated, scen, 1), traces_validated_against_impl=scen,
                            steps_replayed=steps, samples=samples, exhaustive=True,
                            constants={m: c[tier] for m, c in SCENARIO_CHECKS[src_pid]}),
              assumptions=["bounded instance: see constants", "clang ASan + selected UBSan checks, 64-bit"],
              wall_s=round(time.time() - t0, 1))
    return vlib.verdict(pid, mism, ev, tier)


def main():
    pid, tier = sys.argv[1], (sys.argv[2] if len(sys.argv) > 2 else os.environ.get("VERIF_TIER", "quick"))
    if pid in ("C12", "C13"):
        import check_streams
        sys.argv = [sys.argv[0], pid, tier]
        return check_streams.main()
    if pid in SCENARIO_CHECKS or pid in ALIASES:
        return run_scenarios(pid, tier)
    raise vlib.MachineryError("no check registered for " + pid)


if __name__ == "__main__":
    vlib.main_guard(main)
