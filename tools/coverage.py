#!/usr/bin/env python3
"""Development aid, not a registered check:  tools/coverage.py [quick|thorough] [Cxx ...]

Runs the checks with every clang build of /repo additionally instrumented for source coverage (clang's -fprofile-instr-generate), merges
the profiles of all harness processes and reports, per source file of /repo/src, the lines and functions of the library that no
conformance harness ever executed.  The specification can only be bound to code that the replay or the recorders actually reach:
this is the list of places where a change would go unnoticed whatever the oracle says.  Output: out/coverage/uncovered.txt"""
import glob, json, os, re, shutil, subprocess, sys, tempfile
from concurrent.futures import ThreadPoolExecutor

VERIF = os.path.dirname(os.path.dirname(os.path.abspath(__file__)))


def main():
    args = sys.argv[1:]
    tier = args[0] if args and args[0] in ("quick", "thorough") else "quick"
    props = [a for a in args if re.match(r"C\d\d$", a)] or ["C%02d" % i for i in range(1, 21)]
    cov = tempfile.mkdtemp(prefix="op2cov.", dir=os.environ.get("TMPDIR", "/tmp"))
    env = dict(os.environ, VERIF_COVERAGE=cov, VERIF_NO_EVIDENCE="1")

    def one(pid):
        p = subprocess.run([sys.executable, os.path.join(VERIF, "tools", "check.py"), pid, tier], env=env, cwd=VERIF, capture_output=True, text=True)
        return pid, p.returncode
    with ThreadPoolExecutor(max_workers=4) as ex:
        for pid, rc in ex.map(one, props):
            print(pid, "rc=%d" % rc, flush=True)
    raws = glob.glob(os.path.join(cov, "raw", "*.profraw"))
    merged = os.path.join(cov, "merged.profdata")
    lst = os.path.join(cov, "raws.txt")
    open(lst, "w").write("\n".join(raws))
    subprocess.run(["llvm-profdata", "merge", "-sparse", "-f", lst, "-o", merged], check=True)
    lines = {}        # relative source path -> {line: max count}
    funcs = {}        # relative source path -> {function name: max count}
    for b in sorted(glob.glob(os.path.join(cov, "bin", "*"))):
        if b.endswith(".src"):
            continue
        out = subprocess.run(["llvm-cov", "export", "-format=lcov", "-instr-profile", merged, b], capture_output=True, text=True).stdout
        cur = None
        for l in out.split("\n"):
            if l.startswith("SF:"):
                m = re.search(r"/src/(.*)$", l)
                cur = m.group(1) if m and "/repo-" in l else None
            elif cur and l.startswith("DA:"):
                n, c = l[3:].split(",")[:2]
                d = lines.setdefault(cur, {})
                d[int(n)] = max(d.get(int(n), 0), int(c))
            elif cur and l.startswith("FNDA:"):
                c, name = l[5:].split(",", 1)
                d = funcs.setdefault(cur, {})
                d[name] = max(d.get(name, 0), int(c))
    outdir = os.path.join(VERIF, "out", "coverage")
    os.makedirs(outdir, exist_ok=True)
    with open(os.path.join(outdir, "uncovered.txt"), "w") as f:
        tot = hit = 0
        for src in sorted(lines):
            d = lines[src]
            miss = sorted(n for n, c in d.items() if c == 0)
            tot += len(d); hit += len(d) - len(miss)
            f.write(f"{src}: {len(d) - len(miss)}/{len(d)} lines\n")
            path = os.path.join("/repo/src", src)
            text = open(path).read().split("\n") if os.path.exists(path) else []
            for n in miss:
                f.write(f"    {n}: {text[n - 1].strip() if n <= len(text) else ''}\n")
            nf = sorted(name for name, c in funcs.get(src, {}).items() if c == 0)
            for name in nf:
                dem = subprocess.run(["c++filt", name], capture_output=True, text=True).stdout.strip()
                f.write(f"    never called: {dem}\n")
        f.write(f"TOTAL {hit}/{tot} lines of /repo/src executed by the conformance harnesses ({tier} tier, {len(props)} checks)\n")
    print(open(os.path.join(outdir, "uncovered.txt")).read()[-400:])
    shutil.rmtree(cov, ignore_errors=True)


if __name__ == "__main__":
    main()
