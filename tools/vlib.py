"""Shared plumbing for the verification checks: scratch directories, building the implementation under
test from /repo's current working tree, running TLC / Apalache, running conformance harnesses with
crash isolation, classifying results against the known-findings file and writing evidence."""
import atexit, glob, hashlib, json, os, re, shutil, signal, subprocess, sys, tempfile, time

VERIF = os.path.dirname(os.path.dirname(os.path.abspath(__file__)))
REPO = os.environ.get("VERIF_REPO", "/repo")
SEED = int(os.environ.get("VERIF_SEED", "1"))
NPROC = os.cpu_count() or 8

SAN_FLAGS = ("-fsanitize=address,signed-integer-overflow,shift,integer-divide-by-zero,bounds,pointer-overflow,"
             "float-cast-overflow,vla-bound,unreachable,return -fno-sanitize-recover=all -fno-omit-frame-pointer")
ASAN_ENV = "detect_leaks=0:allocator_may_return_null=1:max_allocation_size_mb=512:abort_on_error=1"
# development aid (tools/coverage.py): with VERIF_COVERAGE=<dir> every clang build is also instrumented for source coverage, the
# harness binaries are kept in <dir>/bin and the raw profiles of every harness process in <dir>/raw
COVERAGE = os.environ.get("VERIF_COVERAGE")
if COVERAGE:
    SAN_FLAGS += " -fprofile-instr-generate -fcoverage-mapping"

_scratch = None


def scratch():
    """A per-run scratch directory outside /repo and /verif, removed at exit."""
    global _scratch
    if _scratch is None:
        base = os.environ.get("VERIF_SCRATCH") or os.environ.get("TMPDIR") or "/tmp"
        _scratch = tempfile.mkdtemp(prefix="op2verif.", dir=base)
        atexit.register(lambda: shutil.rmtree(_scratch, ignore_errors=True))
    return _scratch


class MachineryError(Exception):
    """Something in the verification machinery itself failed (never reported as a violation)."""


def sh(cmd, **kw):
    return subprocess.run(cmd, shell=isinstance(cmd, str), capture_output=True, text=True, **kw)


# ------------------------------------------------------------------------------------------------
# implementation under test

def build_impl(cxx="clang++", extra_flags=SAN_FLAGS, opt="-O1", tag="san"):
    """Copy /repo's working tree to scratch and build libOP2Utility.a there. Returns (srcdir, libpath)."""
    dst = os.path.join(scratch(), "repo-" + tag)
    if os.path.exists(os.path.join(dst, "libOP2Utility.a")):
        return dst, os.path.join(dst, "libOP2Utility.a")
    r = sh(["rsync", "-a", "--exclude", ".git", "--exclude", ".build", "--exclude", "*.a", "--exclude", "*.o",
            REPO + "/", dst + "/"])
    if r.returncode:
        raise MachineryError("copy of /repo failed: " + r.stderr)
    flags = f"{opt} -g {extra_flags} -DOP2UTILITY_VERIF"
    r = sh(["make", "-C", dst, f"-j{NPROC}", f"CXX={cxx}", f"CXXFLAGS_EXTRA={flags}", "libOP2Utility.a"])
    if r.returncode or not os.path.exists(os.path.join(dst, "libOP2Utility.a")):
        raise MachineryError("build of the implementation failed:\n" + (r.stdout + r.stderr)[-3000:])
    return dst, os.path.join(dst, "libOP2Utility.a")


def run_suite_traced():
    """Build /repo's working tree with the verification hooks (-DOP2UTILITY_VERIF, g++ -O1, no sanitizers), run the repository's own
    test suite with OP2UTILITY_VERIF_TRACE set and return (path of the recorded ndjson log starting with a Reset event, tests passed)."""
    dst, _ = build_impl(cxx="g++", extra_flags="", opt="-O1", tag="hooks")
    raw = os.path.join(scratch(), "suite_trace.raw")
    if os.path.exists(raw):
        os.remove(raw)
    env = dict(os.environ, OP2UTILITY_VERIF_TRACE=raw)
    r = subprocess.run(["timeout", "1500", "make", "-C", dst, f"-j{NPROC}", "CXX=g++", "CXXFLAGS_EXTRA=-O1 -g  -DOP2UTILITY_VERIF", "check"],
                       capture_output=True, text=True, env=env)
    m = re.search(r"\[  PASSED  \] (\d+) tests", r.stdout)
    passed = int(m.group(1)) if m else 0
    if not os.path.exists(raw):
        raise MachineryError("the traced test suite produced no trace:\n" + (r.stdout + r.stderr)[-1500:])
    log = os.path.join(scratch(), "suite_trace.ndjson")
    with open(log, "w") as f:
        f.write(json.dumps({"e": "Reset", "scenario": "repository test suite (make check) with the stream hooks enabled"}) + "\n")
        f.write(open(raw).read())
    return log, passed


def build_harness(name, srcdir, lib, cxx="clang++", extra_flags=SAN_FLAGS, opt="-O1", tag="san"):
    """Compile harness/<name>.cpp, or every .cpp in harness/<name>/ (in parallel), and link against the library."""
    from concurrent.futures import ThreadPoolExecutor
    out = os.path.join(scratch(), f"{name}-{tag}")
    if os.path.exists(out):
        return out
    single = os.path.join(VERIF, "harness", name + ".cpp")
    srcs = [single] if os.path.exists(single) else sorted(glob.glob(os.path.join(VERIF, "harness", name, "*.cpp")))
    if not srcs:
        raise MachineryError("no harness sources for " + name)
    flags = f"-std=c++17 {opt} -g {extra_flags} -I{srcdir}/src -I{srcdir}/include -I{VERIF}/harness"
    objdir = os.path.join(scratch(), f"obj-{name}-{tag}")
    os.makedirs(objdir, exist_ok=True)

    def cc(src):
        obj = os.path.join(objdir, os.path.basename(src)[:-4] + ".o")
        return obj, sh(f"{cxx} {flags} -c {src} -o {obj}")
    with ThreadPoolExecutor(max_workers=min(NPROC, len(srcs))) as ex:
        results = list(ex.map(cc, srcs))
    for obj, r in results:
        if r.returncode:
            raise MachineryError(f"harness {name} does not compile:\n" + r.stderr[-4000:])
    r = sh(f"{cxx} {opt} -g {extra_flags} {' '.join(o for o, _ in results)} {lib} -lstdc++fs -o {out}")
    if r.returncode:
        raise MachineryError(f"harness {name} does not link:\n" + r.stderr[-4000:])
    if COVERAGE and "profile-instr" in extra_flags:
        os.makedirs(os.path.join(COVERAGE, "bin"), exist_ok=True)
        shutil.copy(out, os.path.join(COVERAGE, "bin", f"{name}-{tag}-{os.getpid()}"))
        open(os.path.join(COVERAGE, "bin", f"{name}-{tag}-{os.getpid()}.src"), "w").write(srcdir)
    return out


# ------------------------------------------------------------------------------------------------
# TLC

TLC_JAVA_SMALL = "-Xmx3g -Xms3g -XX:ParallelGCThreads=2 -Xss512m"
TLC_JAVA_DEFAULT = "-Xss512m"      # recursive operators over a few thousand elements need a deep Java stack


def run_tlc(module, cfg, tags=("T", "S"), workers=None, timeout=1800, simulate=None, small_heap=False, env_extra=None,
            coverage=False):
    """Run TLC on spec/<module>.tla with spec/<cfg>. Returns dict(records={tag: [obj]}, generated, distinct, depth,
    wall_s, coverage). Lines printed by PrintT("TAG|" \\o ToJson(x)) are collected per tag."""
    specdir = os.path.join(VERIF, "spec")
    meta = tempfile.mkdtemp(prefix="tlc.", dir=scratch())
    cmd = ["timeout", str(timeout), "tlc", "-metadir", meta, "-config", cfg]
    cmd += ["-workers", str(workers or min(8, NPROC))]
    if simulate:
        cmd += ["-simulate", simulate, "-seed", str(SEED)]
    if coverage:
        cmd += ["-coverage", "1"]
    cmd += [module + ".tla"]
    env = dict(os.environ)
    env["JAVA_TOOL_OPTIONS"] = TLC_JAVA_SMALL if small_heap else TLC_JAVA_DEFAULT
    if env_extra:
        env.update(env_extra)
    t0 = time.time()
    p = subprocess.run(cmd, cwd=specdir, capture_output=True, text=True, env=env)
    wall = time.time() - t0
    shutil.rmtree(meta, ignore_errors=True)
    for f in glob.glob(os.path.join(specdir, "*_TTrace_*")):
        os.remove(f)
    out = p.stdout
    recs = {t: [] for t in tags}
    for line in out.split("\n"):
        if line.startswith('"') and len(line) > 3:
            bar = line.find("|")
            if 1 < bar < 12 and line[1:bar] in recs:
                s = json.loads(line)
                recs[line[1:bar]].append(json.loads(s[bar:]))
    res = dict(records=recs, wall_s=wall, stdout=out, rc=p.returncode)
    m = re.findall(r"(\d+) states generated, (\d+) distinct states found", out)
    if m:
        res["generated"], res["distinct"] = int(m[-1][0]), int(m[-1][1])
    m = re.search(r"depth of the complete state graph search is (\d+)", out)
    if m:
        res["depth"] = int(m.group(1))
    res["violation"] = "is violated" in out
    res["ok"] = ("Model checking completed. No error has been found." in out) or (simulate is not None and p.returncode in (0, 124))
    if p.returncode == 124:
        res["timeout"] = True
    res["postcondition_false"] = bool(re.search(r"Postcondition \S+ .* is false", out))
    if not res["ok"] and not res["violation"] and not res["postcondition_false"] and "Error:" in out:
        raise MachineryError("TLC failed on %s/%s:\n%s" % (module, cfg, out[-3000:]))
    return res


# ------------------------------------------------------------------------------------------------
# harness runs with crash isolation
#
# Protocol: the harness enumerates its cases in a deterministic order, numbering them 0,1,2,... It accepts
# "--start K" (skip cases below K) and prints, flushed:
#     BEGIN <k> <site> <description>      before executing case k
#     MISMATCH <json>                     any number of times (json has site, kind, detail)
#     END <k>
#     SUMMARY <json>                      once at the end
# If the process dies, the case named by the last BEGIN without END is the culprit; the run resumes at k+1.

def classify_crash(stderr, rc):
    if rc in (-signal.SIGALRM, 124):
        return "watchdog"
    m = re.search(r"ERROR: AddressSanitizer: ([A-Za-z0-9_-]+)", stderr)
    if m:
        return "sanitizer:asan-" + m.group(1)
    m = re.search(r"runtime error: ([^\n]{0,80})", stderr)
    if m:
        msg = re.sub(r"-?\d+", "N", m.group(1))
        return "sanitizer:ubsan-" + msg.strip().replace(" ", "-")[:60]
    if rc == -signal.SIGXFSZ:
        return "file-size-limit"
    return "crash:rc=%s" % rc


def run_isolated(cmd, env=None, timeout=3600, max_crashes=60, cwd=None, skip_flag="--skip-sites"):
    """Run a harness under the protocol of harness/common/proto.hpp. Returns dict(mismatches, summary, crashes)."""
    e = dict(os.environ)
    e["ASAN_OPTIONS"] = ASAN_ENV
    e["UBSAN_OPTIONS"] = "print_stacktrace=0"
    if COVERAGE:
        os.makedirs(os.path.join(COVERAGE, "raw"), exist_ok=True)
        e["LLVM_PROFILE_FILE"] = os.path.join(COVERAGE, "raw", "%p-%m.profraw")
    if env:
        e.update(env)
    start, mism, crashes, summary, t0 = 0, [], 0, {}, time.time()
    sig_counts, site_crashes, skip_sites = {}, {}, []
    executed_before = 0                      # cases completed by processes that later died
    while True:
        if time.time() - t0 > timeout:
            raise MachineryError("harness exceeded its time budget: " + " ".join(cmd))
        extra = ["--start", str(start)] + ([skip_flag, ",".join(skip_sites)] if skip_flag and skip_sites else [])
        p = subprocess.run(cmd + extra, capture_output=True, text=True, env=e, cwd=cwd, errors="replace")
        crash, done = None, False
        for line in p.stdout.split("\n"):
            if line.startswith("MISMATCH "):
                mism.append(json.loads(line[9:]))
            elif line.startswith("CRASHCASE "):
                crash = json.loads(line[10:])
            elif line.startswith("SUMMARY "):
                summary = json.loads(line[8:])
                done = True
        if done and p.returncode == 0:
            for k, c in summary.get("signature_counts", {}).items():
                sig_counts[k] = sig_counts.get(k, 0) + c
            break
        if crash is None:
            raise MachineryError("harness died without naming a case (rc=%s): %s\n%s" % (p.returncode, " ".join(cmd), p.stderr[-2000:]))
        kind = crash["why"] if crash["why"] in ("watchdog", "file-size-limit") else classify_crash(p.stderr, p.returncode)
        m = dict(site=crash["site"], kind=kind, detail=crash["detail"], case=crash["case"], stderr=p.stderr[-1200:])
        mism.append(m)
        sig_counts[m["site"] + "/" + kind] = sig_counts.get(m["site"] + "/" + kind, 0) + 1
        crashes += 1
        executed_before += max(0, crash["case"] - start)
        start = crash["case"] + 1
        # a site that has crashed twice is a finding already: later walks avoid it so the rest can be explored
        site_crashes[crash["site"]] = site_crashes.get(crash["site"], 0) + 1
        if skip_flag and site_crashes[crash["site"]] >= 2 and crash["site"] not in skip_sites:
            skip_sites.append(crash["site"])
        if crashes >= max_crashes:
            summary = dict(summary, truncated=True, reason="crash budget exhausted", resumed_at=start)
            break
    for key in ("scenarios", "walks"):
        if key in summary:
            summary[key] += executed_before
    return dict(mismatches=mism, summary=summary, crashes=crashes, signature_counts=sig_counts, skipped_sites=skip_sites)


# ------------------------------------------------------------------------------------------------
# pipeline G helpers: generate scenarios with TLC, replay them in parallel shards

def run_apalache(module, init, inv, length, cinit=None, timeout=600):
    """apalache-mc check --init=<init> --inv=<inv> --length=<n> on spec/<module>.tla (a typed, data-free abstract machine).
    Returns True (no error up to that length), False (counterexample); anything else is a machinery failure."""
    out = tempfile.mkdtemp(prefix="apalache.", dir=scratch())
    cmd = ["timeout", str(timeout), "apalache-mc", "check", f"--out-dir={out}", f"--init={init}", f"--inv={inv}", f"--length={length}"]
    if cinit:
        cmd.append(f"--cinit={cinit}")
    r = sh(cmd + [os.path.join(VERIF, "spec", module + ".tla")], cwd=out)
    shutil.rmtree(out, ignore_errors=True)
    if "The outcome is: NoError" in r.stdout:
        return True
    if "The outcome is: Error" in r.stdout or "Found a violation" in r.stdout or "outcome is: Error" in r.stdout:
        return False
    raise MachineryError(f"apalache-mc on {module} ({init} => {inv}): rc={r.returncode}\n" + (r.stdout + r.stderr)[-1500:])


def inductive(module, indinv, goals=(), cinit=None):
    """Init => IndInv, IndInv /\\ Next => IndInv', IndInv => goal for every goal - for the unbounded parameters of the module."""
    if not run_apalache(module, "Init", indinv, 0, cinit) or not run_apalache(module, indinv, indinv, 1, cinit):
        raise MachineryError(f"{module}: {indinv} is not inductive")
    for g in goals:
        if not run_apalache(module, indinv, g, 0, cinit):
            raise MachineryError(f"{module}: {indinv} does not imply {g}")
    return 2 + len(goals)


def cfg_text(constants=None, invariants=(), properties=(), spec="Spec", deadlock=False, extra=""):
    t = ""
    if constants:
        t += "CONSTANTS\n" + "".join(f"  {k} = {v}\n" for k, v in constants.items())
    t += f"SPECIFICATION {spec}\n" + ("" if deadlock else "CHECK_DEADLOCK FALSE\n")
    for i in invariants:
        t += f"INVARIANT {i}\n"
    for i in properties:
        t += f"PROPERTY {i}\n"
    return t + extra


_gen_counter = [0]


def generate(module, constants=None, invariants=(), properties=(), workers=1, small_heap=False, tag="S", timeout=3000,
             required=True, subst=None):
    """Run the bounded instance spec/<module>.tla; its model-level checks must pass (anything else is a machinery failure:
    the specification is wrong, not the code).  Records printed under `tag` are written to an ndjson file.
    Returns dict(file, n, states, generated, sample, wall_s, records)."""
    _gen_counter[0] += 1
    cfg = os.path.join(scratch(), f"{module}_{_gen_counter[0]}.cfg")
    extra = "".join(f"CONSTANT {k} <- {v}\n" for k, v in (subst or {}).items())
    open(cfg, "w").write(cfg_text(constants, invariants, properties, extra=extra))
    r = run_tlc(module, cfg, tags=(tag,), workers=workers, small_heap=small_heap, timeout=timeout)
    if r["violation"] or not r["ok"]:
        raise MachineryError(f"{module}: the specification instance did not pass its own model-level checks:\n" + r["stdout"][-3000:])
    recs = r["records"][tag]
    if required and not recs:
        raise MachineryError(f"vacuity: {module} exported nothing under tag {tag}")
    path = os.path.join(scratch(), f"{module}_{_gen_counter[0]}.ndjson")
    with open(path, "w") as f:
        for x in recs:
            f.write(json.dumps(x) + "\n")
    return dict(file=path, n=len(recs), states=r.get("distinct", 0), generated=r.get("generated", 0), records=recs, wall_s=r["wall_s"],
                module=module, constants=constants or {})


def shm_dir():
    """Scratch for file-system heavy scenario sandboxes (tmpfs when available)."""
    base = os.environ.get("VERIF_SHM", "/dev/shm")
    if not os.path.isdir(base) or not os.access(base, os.W_OK):
        base = scratch()
    d = tempfile.mkdtemp(prefix="op2verif.", dir=base)
    atexit.register(lambda: shutil.rmtree(d, ignore_errors=True))
    return d


def run_scenarios(harness, scen_file, pid, shards=None, log=False, env=None, max_crashes=80, extra_args=(), timeout=3000, trace=None):
    """Replay a scenario file with the interpreter, split round-robin into parallel shards.
    Returns dict(mismatches, scenarios, steps, crashes, log=<path or None>)."""
    from concurrent.futures import ThreadPoolExecutor
    lines = [l for l in open(scen_file) if l.strip()]
    n = max(1, min(shards or NPROC, len(lines) // 8 or 1))
    work = shm_dir()
    parts = []
    for k in range(n):
        pf = os.path.join(scratch(), f"{os.path.basename(scen_file)}.{pid}.{k}")
        with open(pf, "w") as f:
            f.writelines(lines[k::n])
        parts.append(pf)

    def one(k):
        cmd = [harness, "--scenarios", parts[k], "--workdir", os.path.join(work, f"w{k}"), "--prop", pid, "--seed", str(SEED)] + list(extra_args)
        if log:
            cmd += ["--log", parts[k] + ".log"]
        e = env
        if trace and k == 0:          # the first shard also records every stream operation the library performs internally (hooks, DESIGN 0.7)
            e = dict(env or {}, OP2UTILITY_VERIF_TRACE=trace)
        return run_isolated(cmd, env=e, max_crashes=max_crashes, timeout=timeout)
    with ThreadPoolExecutor(max_workers=n) as ex:
        res = list(ex.map(one, range(n)))
    out = dict(mismatches=[], scenarios=0, steps=0, crashes=0, log=None)
    for k, r in enumerate(res):
        for m in r["mismatches"]:
            m["shard"] = k
        out["mismatches"] += r["mismatches"]
        out["scenarios"] += r["summary"].get("scenarios", 0)
        out["steps"] += r["summary"].get("steps", 0)
        out["crashes"] += r["crashes"]
        if r["summary"].get("truncated"):
            out["truncated"] = True
    if log:
        out["log"] = os.path.join(scratch(), f"{os.path.basename(scen_file)}.{pid}.log")
        with open(out["log"], "w") as f:
            for pf in parts:
                if os.path.exists(pf + ".log"):
                    f.write(open(pf + ".log").read())
    shutil.rmtree(work, ignore_errors=True)
    return out


# ------------------------------------------------------------------------------------------------
# known findings and verdicts

def load_known():
    """known_findings.txt: lines  'finding: property=<id> signature=<sig> <text>'  and  'fixed: property=<id> <commit> <text>'."""
    known = {}
    path = os.path.join(VERIF, "known_findings.txt")
    if os.path.exists(path):
        for line in open(path):
            m = re.match(r"finding:\s+property=(\S+)\s+signature=(\S+)\s*(.*)", line.strip())
            if m:
                known.setdefault(m.group(1), {})[m.group(2)] = m.group(3)
    return known


def signature(pid, m):
    return f"{m['site']}/{m['kind']}"


def verdict(pid, mismatches, evidence, tier):
    """Print KNOWN-FINDING / VIOLATION lines, write replay files and the evidence file, return exit code."""
    known = load_known().get(pid, {})
    by_sig = {}
    for m in mismatches:
        by_sig.setdefault(signature(pid, m), []).append(m)
    outdir = os.path.join(VERIF, "out", pid)
    os.makedirs(outdir, exist_ok=True)
    viol, kf = 0, []
    for sig, ms in sorted(by_sig.items()):
        if sig in known:
            print(f"KNOWN-FINDING: property={pid} {sig} {known[sig]} ({len(ms)} occurrence(s))")
            kf.append(sig)
            continue
        viol += 1
        rp = os.path.join(outdir, "%s-%s.json" % (tier, hashlib.sha1(sig.encode()).hexdigest()[:10]))
        json.dump(dict(property=pid, signature=sig, occurrences=len(ms), first=ms[0]), open(rp, "w"), indent=1)
        print(f"VIOLATION property={pid} replay={rp}" if not pid.startswith("X") else f"EXTRA-DISAGREEMENT spec={pid} replay={rp}")
        print(f"  signature {sig}: {ms[0].get('detail', '')[:300]}")
    evidence = dict(evidence)
    evidence.update(property_id=pid, tier=tier, seed=SEED, level="model_checking", violations=viol)
    evidence.setdefault("assumptions", [])
    evidence["coverage"]["known_findings_reported"] = kf
    if not os.environ.get("VERIF_NO_EVIDENCE"):          # set by tools/mutants.py: runs against changed copies are not evidence
        evdir = os.path.join(VERIF, "extras" if pid.startswith("X") else "evidence")       # extras: specification modules beyond the listed properties
        os.makedirs(evdir, exist_ok=True)
        json.dump(evidence, open(os.path.join(evdir, pid + ".json"), "w"), indent=1)
    return 1 if viol else 0


# ------------------------------------------------------------------------------------------------
# pipeline V: validate a recorded ndjson log against a Trace_* specification, isolating rejected executions

def validate_log(module, log_path, constants=None, max_rejections=40, timeout=1800):
    """The log is a concatenation of executions, each starting with a {"e":"Reset",...} event that carries a
    "scenario" description.  Returns dict(events, executions, rejections=[{scenario, line, event, previous}], tlc_runs)."""
    def whole(l):            # a recorder that died in the middle of a write leaves a partial last line: it is not an event
        if not l.endswith("\n"):
            try:
                json.loads(l)
            except ValueError:
                return False
        return True
    lines = [l if l.endswith("\n") else l + "\n" for l in open(log_path, errors="replace") if l.strip() and whole(l)]
    starts = [i for i, l in enumerate(lines) if '"e":"Reset"' in l or '"e": "Reset"' in l]
    if not starts or starts[0] != 0:
        raise MachineryError("log does not start with a Reset event: " + log_path)
    chunks = [lines[a:b] for a, b in zip(starts, starts[1:] + [len(lines)])]
    cfg = os.path.join(scratch(), module + ".cfg")
    open(cfg, "w").write(("CONSTANTS\n" + "".join(f"  {k} = {v}\n" for k, v in constants.items()) if constants else "")
                         + "SPECIFICATION Spec\nPOSTCONDITION Accepted\nCHECK_DEADLOCK FALSE\n")
    rejections, runs, alive = [], 0, list(range(len(chunks)))
    while alive:
        cur = os.path.join(scratch(), "trace.ndjson")
        with open(cur, "w") as f:
            for c in alive:
                f.writelines(chunks[c])
        total = sum(len(chunks[c]) for c in alive)
        r = run_tlc(module, cfg, tags=(), workers=1, small_heap=True, env_extra={"TRACE": cur}, timeout=timeout)
        runs += 1
        out = r["stdout"]
        if not r["postcondition_false"] and r["ok"]:
            break                                                   # every line consumed
        m = re.findall(r"(\d+) states generated", out)
        if not m:
            raise MachineryError("trace validation failed to run:\n" + out[-2000:])
        consumed = int(m[-1]) - 1                                    # lines matched before the search stopped
        if consumed >= total:
            break
        # which execution does line `consumed` (0-based: the first unmatched line) belong to?
        acc = 0
        for idx, c in enumerate(alive):
            if consumed < acc + len(chunks[c]):
                off = consumed - acc
                ev = json.loads(chunks[c][off])
                prev = json.loads(chunks[c][off - 1]) if off > 0 else None
                head = json.loads(chunks[c][0])
                rejections.append(dict(scenario=head.get("scenario", ""), line=off, event=ev, previous=prev))
                alive.pop(idx)
                break
            acc += len(chunks[c])
        if len(rejections) >= max_rejections:
            break
    return dict(events=len(lines), executions=len(chunks), rejections=rejections, tlc_runs=runs)


def main_guard(fn):
    """Run a check; machinery failures exit 2 with a clear message, never as a violation."""
    try:
        sys.exit(fn())
    except MachineryError as e:
        print("MACHINERY-FAILURE:", e, file=sys.stderr)
        sys.exit(2)
