#!/usr/bin/env python3
"""C12 / C13: readers and slices.  TLC exports the transition relation of spec/StreamReader.tla for several
source contents; harness/stream_walk walks it against the real readers on four backends."""
import json, os, sys, time
sys.path.insert(0, os.path.dirname(os.path.abspath(__file__)))
import vlib

CONTENTS = {"C1": [2, 0, 65, 0], "C2": [255, 255, 255, 255], "C3": [1, 66, 0, 128], "C4": []}
SLICE_OPS = ("SliceAt", "SliceHere", "Drop")


def belongs(pid, m):
    """Which of the two properties a disagreement speaks about (a defect may break both)."""
    op = m["site"].split(".", 1)[1].split("/")[0]
    cls = m["site"].rsplit("/", 1)[1]
    backend = m["site"].split(".", 1)[0]
    slice_matter = op in SLICE_OPS or m["kind"] in ("other-stream-changed", "live-count")
    in_bounds = cls == "small" and m["kind"] in ("state", "count", "bytes", "refused-should-accept")
    if pid == "C13":
        return slice_matter or in_bounds or backend == "file"
    return not slice_matter          # C12: every single-stream operation, in or out of bounds


def main():
    pid, tier = sys.argv[1], sys.argv[2]
    t0 = time.time()
    thorough = tier == "thorough"
    max_streams = (1 if pid == "C12" else 2) + (1 if thorough else 0)
    depth = 3 if thorough else 2
    backends = ["mem", "memslice", "fileslice"] + (["file"] if pid == "C13" else [])
    src, lib = vlib.build_impl()
    harness = vlib.build_harness("stream_walk", src, lib)
    work = os.path.join(vlib.scratch(), "sw"); os.makedirs(work, exist_ok=True)
    states = transitions = walks = steps = 0
    mism, samples, skipped = [], [], []
    contents = list(CONTENTS) if thorough or pid == "C12" else ["C1", "C3", "C4"]
    for cname in contents:
        cfg = os.path.join(vlib.scratch(), f"MC_SR_{cname}_{max_streams}.cfg")
        open(cfg, "w").write(f"CONSTANTS\n  Content <- {cname}\n  MaxStreams = {max_streams}\nSPECIFICATION Spec\n"
                             "INVARIANT PosInBounds Confined\nPROPERTY Independence\n")
        r = vlib.run_tlc("MC_StreamReader", cfg, tags=("T",))
        if r["violation"]:
            raise vlib.MachineryError("the specification itself violates a model-level property:\n" + r["stdout"][-2000:])
        rel = r["records"]["T"]
        ops = {t["op"] for t in rel}
        needed = {"Read", "ReadPartial", "Peek", "Seek", "SeekForward", "SeekBackward", "SeekEnd", "SeekBeginning", "ReadCString"}
        if max_streams > 1:
            needed |= {"SliceAt", "SliceHere", "Drop"}
        if not needed <= ops:
            raise vlib.MachineryError("vacuity: actions never taken: %s" % (needed - ops))
        states += r["distinct"]; transitions += len(rel)
        relfile = os.path.join(work, f"rel_{cname}.ndjson")
        with open(relfile, "w") as f:
            for t in rel:
                f.write(json.dumps(t) + "\n")
        if not samples:
            samples = rel[1:4]
        for b in backends:
            res = vlib.run_isolated([harness, "--rel", relfile, "--content", ",".join(map(str, CONTENTS[cname])) or ",",
                                     "--backend", b, "--depth", str(depth), "--random", "3000" if thorough else "500",
                                     "--len", "60", "--workdir", work, "--seed", str(vlib.SEED)], max_crashes=120)
            walks += res["summary"].get("walks", 0); steps += res["summary"].get("steps", 0)
            mism += [m for m in res["mismatches"] if belongs(pid, m)]
            skipped += res["skipped_sites"]
    ev = dict(coverage=dict(states=states, transitions=transitions, traces_validated_against_impl=walks,
                            steps_replayed=steps, samples=samples, exhaustive=True,
                            constants=dict(contents=[CONTENTS[c] for c in contents], MaxStreams=max_streams, walk_depth=depth,
                                           backends=backends),
                            sites_skipped_after_repeated_crash=sorted(set(skipped))),
              assumptions=["walks beyond the stated depth are sampled, not enumerated",
                           "64-bit size_t; clang ASan + selected UBSan checks"],
              wall_s=round(time.time() - t0, 1))
    return vlib.verdict(pid, mism, ev, tier)


if __name__ == "__main__":
    vlib.main_guard(main)
