#!/usr/bin/env python3
"""MANIFEST.setup_cmd: nothing is downloaded or installed; this verifies that the tools the checks rely on are present
and that every TLA+ module parses.  The implementation under test is rebuilt by every check from /repo's working tree."""
import glob, os, shutil, subprocess, sys
VERIF = os.path.dirname(os.path.dirname(os.path.abspath(__file__)))
missing = [t for t in ("tlc", "tla-sany", "clang++", "g++", "make", "rsync", "timeout") if not shutil.which(t)]
if missing:
    print("missing tools:", missing); sys.exit(1)
bad = 0
for f in sorted(glob.glob(os.path.join(VERIF, "spec", "*.tla"))):
    r = subprocess.run(["tla-sany", os.path.basename(f)], cwd=os.path.join(VERIF, "spec"), capture_output=True, text=True)
    if r.returncode or "Semantic errors" in r.stdout or "Parse Error" in r.stdout or "Fatal errors" in r.stdout:
        print("SANY rejects", f, "\n", r.stdout[-1500:]); bad += 1
os.makedirs(os.path.join(VERIF, "evidence"), exist_ok=True)
os.makedirs(os.path.join(VERIF, "out"), exist_ok=True)
print("setup ok" if not bad else "setup failed")
sys.exit(1 if bad else 0)
