import json, glob, os, re, subprocess
props = {json.loads(l)['id']: json.loads(l) for l in open('/verif/properties.jsonl')}
used = {}
for m in sorted(glob.glob('/verif/seeded/*/meta.json')):
    d = json.load(open(m)); p = d['property']; p = p if isinstance(p, list) else [p]
    for x in p: used.setdefault(x, []).append(d['summary'])
for l in open('/verif/known_findings.txt'):
    mm = re.match(r'fixed:\s+property=(\S+)\s+\S+\s+(.*)', l.strip())
    if mm: used.setdefault(mm.group(1), []).append(mm.group(2))
tmpl = open('/verif/tools/seed_prompt_template.txt').read()
head = tmpl[:tmpl.index('TITLE:')]
mid = tmpl[tmpl.index('YOUR TASK:'):tmpl.index(' - BitmapFile::WritePixels')]
tail = tmpl[tmpl.index('Read the property statement clause by clause'):]
for pid, d in props.items():
    wt = f'/tmp/seed10_{pid}'
    body = (head + f"TITLE: {d['title']}\nSTATEMENT: {d['statement']}\nQUANTIFIER: {d['quantifier']['text']}\n(anchor files, for orientation only: {', '.join(d['anchors']['files'])})\n\n"
            + mid + ''.join(f" - {u}\n" for u in used.get(pid, [])) + tail)
    body = body.replace('/tmp/seed4_C08', wt)
    open(f'/tmp/prompt10_{pid}.txt', 'w').write(body)
print(len(props), 'prompts')
