#!/usr/bin/env python3
"""Intake of a seeded change produced by a sub-agent:  tools/seed_intake.py <name> <property> <agent worktree> "<summary>" "<needs>"

Confirms, in a fresh scratch worktree of /repo (never in /repo itself), that
  * the unchanged library builds and the demonstration passes on it,
  * the patch applies, the library still builds, the unedited test suite still passes (141 tests),
  * the demonstration fails with the patch,
and only then stores patch.diff, the demonstration and meta.json under /verif/seeded/<name>/."""
import json, os, re, shutil, subprocess, sys, tempfile

VERIF = os.path.dirname(os.path.dirname(os.path.abspath(__file__)))


def sh(cmd, cwd=None, timeout=1800):
    p = subprocess.run(cmd, shell=True, cwd=cwd, capture_output=True, text=True, errors="replace", timeout=timeout)
    return p.returncode, (p.stdout + p.stderr)


def main():
    name, prop, agent_wt, summary, needs = sys.argv[1:6]
    src_demo = os.path.join(agent_wt, "demo")
    wt = tempfile.mkdtemp(prefix="op2seedverify.", dir="/tmp")
    os.rmdir(wt)
    ran = []
    try:
        rc, out = sh(f"git -C /repo worktree add --detach {wt} HEAD")
        assert rc == 0, out
        os.makedirs(os.path.join(wt, "demo"))
        shutil.copy(os.path.join(src_demo, "demo.cpp"), os.path.join(wt, "demo", "demo.cpp"))
        build_demo = "g++ -std=c++17 -Isrc demo/demo.cpp libOP2Utility.a -lstdc++fs -o demo/demo"
        rc, out = sh("make -j8 libOP2Utility.a", cwd=wt); assert rc == 0, out[-2000:]
        rc, out = sh(build_demo, cwd=wt); assert rc == 0, out[-2000:]
        demo_cmd = "./demo/demo" if os.environ.get("DEMO_FROM_ROOT") else "cd demo && ./demo"
        rc0, out0 = sh(demo_cmd, cwd=wt, timeout=600)
        ran.append(f"unchanged tree: make libOP2Utility.a; {build_demo}; demo/demo -> exit {rc0}")
        rc, out = sh(f"git apply {os.path.join(src_demo, 'patch.diff')}", cwd=wt); assert rc == 0, "patch does not apply: " + out
        rc, out = sh("make -j8 libOP2Utility.a", cwd=wt); assert rc == 0, out[-2000:]
        rc, out = sh("make -j8 check", cwd=wt, timeout=3000)
        m = re.search(r"\[  PASSED  \] (\d+) tests", out)
        passed = int(m.group(1)) if m else 0
        failed = "FAILED" in out
        ran.append(f"with patch: make check -> {passed} passed, failed={failed}")
        rc, out = sh(build_demo, cwd=wt); assert rc == 0, out[-2000:]
        rc1, out1 = sh(demo_cmd, cwd=wt, timeout=600)
        ran.append(f"with patch: demo/demo -> exit {rc1}: {out1.strip()[:300]}")
        ok = rc0 == 0 and rc1 != 0 and passed == 141 and not failed
        print("\n".join(ran))
        if not ok:
            print("REJECTED: the change does not meet the intake conditions")
            return 1
        dst = os.path.join(VERIF, "seeded", name)
        os.makedirs(dst, exist_ok=True)
        for f in ("patch.diff", "demo.cpp", "NOTES.md"):
            if os.path.exists(os.path.join(src_demo, f)):
                shutil.copy(os.path.join(src_demo, f), os.path.join(dst, f))
        json.dump(dict(property=prop, summary=summary, needs_to_manifest=needs, origin="independent sub-agent given only the property text",
                       confirmed=ran), open(os.path.join(dst, "meta.json"), "w"), indent=1)
        print("stored in", dst)
        return 0
    finally:
        sh(f"git -C /repo worktree remove --force {wt}")
        shutil.rmtree(wt, ignore_errors=True)


if __name__ == "__main__":
    sys.exit(main())
