#!/bin/bash
# tools/seed_sweep.sh <tier> <seed>...   run every registered check under other values of VERIF_SEED (no evidence written);
# any non-zero exit on the unchanged tree is a false alarm of a random family and must be corrected in the machinery.
tier=$1; shift
cd "$(dirname "$0")/.."
for seed in "$@"; do
  for i in $(seq -w 1 20); do echo "$seed C$i"; done
done | xargs -P 4 -L 1 bash -c 'o=$(VERIF_SEED=$0 VERIF_NO_EVIDENCE=1 python3 tools/check.py $1 '"$tier"' 2>&1); rc=$?; echo "seed=$0 $1 rc=$rc"; [ $rc -ne 0 ] && echo "$o" | tail -5'
