"""The per-property checks.  Each function receives a Run and adds the results of its parts to it."""
import json, os, re, shutil, subprocess, time
import vlib
from vlib import MachineryError


class Run:
    """Collects what one check did: TLC statistics, replayed/validated behaviours, samples, disagreements."""

    def __init__(self, pid, tier):
        self.pid, self.tier, self.thorough = pid, tier, tier == "thorough"
        self.states = self.transitions = self.traces = self.steps = 0
        self.mismatches, self.samples, self.parts, self.assumptions = [], [], [], []
        self._impl = {}
        self._harness = {}

    # ---- builds -----------------------------------------------------------------------------------
    def impl(self, cxx="clang++", extra_flags=vlib.SAN_FLAGS, opt="-O1", tag="san"):
        if tag not in self._impl:
            self._impl[tag] = vlib.build_impl(cxx, extra_flags, opt, tag)
        return self._impl[tag]

    def harness(self, name, cxx="clang++", extra_flags=vlib.SAN_FLAGS, opt="-O1", tag="san"):
        key = (name, tag)
        if key not in self._harness:
            src, lib = self.impl(cxx, extra_flags, opt, tag)
            self._harness[key] = vlib.build_harness(name, src, lib, cxx, extra_flags, opt, tag)
        return self._harness[key]

    # ---- bookkeeping ------------------------------------------------------------------------------
    def add_model(self, g):
        self.states += g.get("states", 0)
        self.transitions += max(g.get("generated", 0), g.get("n", 0))

    def sample(self, x):
        if len(self.samples) < 3:
            s = json.dumps(x)
            self.samples.append(x if len(s) < 3000 else {"truncated": s[:3000]})

    def part(self, name, **kw):
        self.parts.append(dict(part=name, **kw))

    def add_mismatches(self, ms, own=None):
        for m in ms:
            if own is None or own(m):
                self.mismatches.append(m)

    # ---- pipeline G: TLC behaviour export -> scenario interpreter ------------------------------------
    def scen(self, module, constants=None, own=None, invariants=(), workers=1, small_heap=False, log=False, name=None,
             max_crashes=80, subst=None):
        g = vlib.generate(module, constants, invariants=invariants, workers=workers, small_heap=small_heap, subst=subst)
        self.add_model(g)
        recs = g["records"]
        self.sample(recs[len(recs) // 2] if len(json.dumps(recs[len(recs) // 2])) < 3000 else
                    {"id": recs[len(recs) // 2]["id"], "ops": [x["op"] for x in recs[len(recs) // 2]["steps"]]})
        r = vlib.run_scenarios(self.harness("scen"), g["file"], self.pid, log=log, max_crashes=max_crashes)
        self.traces += r["scenarios"]
        self.steps += r["steps"]
        self.add_mismatches(r["mismatches"], own)
        self.part(name or module, constants=constants or {}, tlc_states=g["states"], scenarios_exported=g["n"], scenarios_replayed=r["scenarios"],
                  steps=r["steps"], crashes=r["crashes"], tlc_wall_s=round(g["wall_s"], 1))
        if r["crashes"] == 0 and r["scenarios"] < g["n"]:
            raise MachineryError(f"{module}: {g['n']} scenarios exported but only {r['scenarios']} replayed")
        return g, r

    # ---- verdict -------------------------------------------------------------------------------------
    def finish(self, wall):
        ev = dict(coverage=dict(states=max(self.states, 1), transitions=max(self.transitions, 1),
                                traces_validated_against_impl=self.traces, steps_replayed=self.steps,
                                samples=self.samples or ["(no sample)"], exhaustive=True, parts=self.parts),
                  assumptions=["bounded instances: constants are listed per part",
                               "implementation built from /repo's working tree with clang ASan + selected UBSan checks on a 64-bit target",
                               "TLC 1.8 and the TLA+ modules in /verif/spec are the trusted description"] + self.assumptions,
                  wall_s=wall)
        if self.traces == 0:
            raise MachineryError("nothing was replayed or validated against the implementation")
        return vlib.verdict(self.pid, self.mismatches, ev, self.tier)


def site_of(m):
    """The site without the '<pid>.' prefix the interpreter puts in front."""
    s = m["site"]
    return s.split(".", 1)[1] if re.match(r"C\d\d\.", s) else s


def by_prefix(*prefixes):
    return lambda m: site_of(m).startswith(prefixes)


# ======================================================================================================
# archives

VOL_NORAND = dict(Seed=1, NRand=0)


def VOL_RAND(run):
    """The seeded random family of MC_Vol: file sets over a wide name alphabet, drawn from VERIF_SEED."""
    return dict(Seed=vlib.SEED % 300, NRand=1500 if run.thorough else 250)


VOL_INV = ("LayoutWellFormed", "SortedAscending", "Export")      # MC_Vol: one TLC state per file set, laws as invariants


def c01(run):
    run.scen("MC_Vol", dict(VOL_RAND(run), MaxFiles=3 if run.thorough else 2, Big="FALSE"), invariants=VOL_INV, workers=8)
    # members around the 128 KiB copy chunk of Writer::Write(Reader&)
    run.scen("MC_Vol", dict(VOL_NORAND, MaxFiles=2 if run.thorough else 1, Big="TRUE"), invariants=VOL_INV, workers=8, name="MC_Vol (copy-chunk boundary sizes)")


def c02(run):
    # writer direction: TLC asserts WellFormed on every layout; the code's bytes must equal that layout
    run.scen("MC_Vol", dict(VOL_RAND(run), MaxFiles=3 if run.thorough else 2, Big="FALSE"), invariants=VOL_INV, workers=8, own=by_prefix("file_eq", "vol_create", "scenario"), name="MC_Vol (writer direction)")
    # reader direction: archives from the independent encoder
    run.scen("MC_VolRef", {}, small_heap=True)


CLM_INV = ("EndsWithLast", "OffsetsAccumulate", "NamesAscending", "Export")


def c03(run):
    run.scen("MC_Clm", {"MaxFiles": 3 if run.thorough else 2, "Seed": vlib.SEED % 300, "NRand": 1500 if run.thorough else 300}, invariants=CLM_INV, workers=8)


def c17(run):
    run.scen("MC_Vol", dict(VOL_RAND(run), MaxFiles=2, Big="FALSE"), invariants=VOL_INV, workers=8, own=by_prefix("vol_index", "vol_member_err", "scenario"), name="MC_Vol (lookups)")
    run.scen("MC_ResMgr", {}, invariants=("LooseFirst", "ContainingContains", "TypeListingLaws", "PatternListingLaws", "Export"), workers=8)


def c20(run):
    run.scen("MC_Limits", {}, own=lambda m: not site_of(m).startswith(("prefixed_read", "typed_roundtrip")))       # VOL / CLM size vectors (sparse files), size-prefixed container writes
    run.scen("MC_LimitsPrt", {"MaxLayers": 130})                         # every layer-list length 0..130 against every 7-bit count
    run.scen("MC_Clm", {"MaxFiles": 1, "Seed": vlib.SEED % 300, "NRand": 100}, invariants=CLM_INV, workers=8, own=by_prefix("clm_create", "scenario"), name="MC_Clm (names of 8 and 9 characters)")


# ======================================================================================================
# codecs

def _lzh_machine(run, jobs, replay=True):
    """LzhMachine instances in parallel TLC processes: (NSym, MaxCount, kind, len).  With the real constants the exported outcome
    (length, checksum, error) is replayed on the real decoder; scaled instances are model-level evidence for the capacity law."""
    from concurrent.futures import ThreadPoolExecutor
    inv = ("RootCounts", "CapacityOnlyAtLimit", "WindowCursor", "Export")

    def one(job):
        nsym, maxc, kind, n = job
        return job, vlib.generate("LzhMachine", {"NSym": nsym, "MaxCount": maxc, "InputKind": '"%s"' % kind, "InputLen": n}, invariants=inv,
                                  workers=1, small_heap=True, timeout=3400)
    with ThreadPoolExecutor(max_workers=min(len(jobs), 8)) as ex:
        res = list(ex.map(one, jobs))
    merged = os.path.join(vlib.scratch(), "lzh_long_%d.ndjson" % len(run.parts))
    schedules = []
    if replay:
        # drain schedules around the ring size, from the call alphabet of the drain model at the real constants
        gs = vlib.generate("MC_LzhSched", {"W": 4096, "M": 60, "MaxLen": 3 if run.thorough else 2}, invariants=("Export",), workers=4)
        run.add_model(gs)
        schedules = [r["id"] for r in gs["records"]]
        run.part("MC_LzhSched (mixed GetData / GetInternalBuffer schedules around the ring size)", schedules=len(schedules))
    with open(merged, "w") as f:
        for job, g in res:
            run.add_model(g)
            rec = g["records"][0]["steps"][0]
            run.part("LzhMachine %s[%d] MaxCount=%d" % (job[2], job[3], job[1]), codes=rec["codes"], out_len=rec["outLen"], capacity_error=rec["err"],
                     tlc_states=g["states"], tlc_wall_s=round(g["wall_s"], 1))
            if replay and job[1] == 65535:
                g["records"][0]["steps"][0]["schedules"] = schedules
                f.write(json.dumps(g["records"][0]) + "\n")
                run.sample(g["records"][0])
    if replay:
        r = vlib.run_scenarios(run.harness("scen"), merged, run.pid, shards=len(jobs))
        run.traces += r["scenarios"]; run.steps += r["steps"]; run.add_mismatches(r["mismatches"])


def c04(run):
    run.scen("MC_Lzh", {"NSym": 314, "MaxCount": 65535, "MaxToks": 3 if run.thorough else 2}, small_heap=True)
    # longer raw inputs through the decoder state machine (length + checksum of the output)
    _lzh_machine(run, [(314, 65535, "lcg", 1200), (314, 65535, "zero", 2500), (314, 65535, "ff", 2500), (314, 65535, "aa", 1500)])
    # the capacity law on the model, for scaled counters: error exactly at code MaxCount - NSym + 1, whatever the input
    _lzh_machine(run, [(314, 330, "lcg", 300), (314, 400, "zero", 300), (314, 400, "ff", 300), (314, 700, "aa", 800)], replay=False)
    # ... and its instances at the real constants: runs of equal literals across the capacity
    run.scen("MC_LzhRun", {"NSym": 314, "MaxCount": 65535})
    # "extracting an LZH member from a volume writes exactly those bytes": archives of the reference encoder with LZH members, extracted in
    # ascending and descending order through one object
    run.scen("MC_VolRef", {}, small_heap=True, own=lambda m: "extract" in m["site"], name="MC_VolRef (LZH members extracted from volumes)")
    # the bit cursor under the decoder: every walk of bit / byte reads on four inputs
    for inp, depth in (("B0", 3), ("B1", 7), ("B2", 7), ("B3", 8 if run.thorough else 6)):
        g = vlib.generate("BitReader", {"Depth": depth}, invariants=("Bounded", "Export"), properties=("Monotone",), workers=4, subst={"Input": inp})
        run.add_model(g)
        r = vlib.run_scenarios(run.harness("scen"), g["file"], run.pid)
        run.traces += r["scenarios"]; run.steps += r["steps"]; run.add_mismatches(r["mismatches"])
        run.part(f"BitReader {inp} depth {depth}", walks=g["n"], tlc_states=g["states"])
    # the drain interface as the code structures it (ring buffer + fill threshold), scaled constants: the queue never overruns for the
    # code's threshold formula MaxFill = W - M - 2 nor for the largest safe one, and TLC must find the overrun for W - M + 1 (anti-vacuity)
    drain_inv = ("NoOverrun", "RingHoldsUndelivered", "FillLevelIsWaiting", "GetDataContract", "IBufContract", "DeliveredInOrder")
    for W, M in ((8, 3), (16, 6)) if run.thorough else ((8, 3),):
        for mf, must_hold in ((W - M - 2, True), (W - M, True), (W - M + 1, False)):
            cfg = os.path.join(vlib.scratch(), f"LzhDrain_{W}_{mf}.cfg")
            open(cfg, "w").write(vlib.cfg_text({"W": W, "M": M, "MaxFill": mf, "MaxCodes": 6 if W == 8 else 5, "Sizes": "{1, 2, %d, %d, %d}" % (M + 2, W, W + 1)}, invariants=drain_inv, properties=("RefinesBounds",) if must_hold else ()))
            r = vlib.run_tlc("LzhDrain", cfg, tags=(), workers=8, timeout=1500)
            if must_hold and (r["violation"] or not r["ok"]):
                raise MachineryError("LzhDrain: the drain design violates its contract for a safe threshold:\n" + r["stdout"][-1500:])
            if not must_hold and not r["violation"]:
                raise MachineryError("LzhDrain: vacuity - the overrun for a threshold of W - M + 1 was not found")
            run.states += r.get("distinct", 0); run.transitions += r.get("generated", 0)
            run.part(f"LzhDrain W={W} M={M} MaxFill={mf}", holds=must_hold, tlc_states=r.get("distinct", 0))
    # ... and for EVERY ring size, run length and threshold with MaxFill + M <= W (the real 4096 / 60 / 4034 included): Apalache discharges the
    # inductive invariant of the counters-only machine DrainBounds, which the TLC runs above have just shown LzhDrain to refine
    n = vlib.inductive("DrainBounds", "IndInv", goals=("NoOverrun",), cinit="ConstInit")
    if vlib.run_apalache("DrainBounds", "IndInv", "NoOverrun", 0, cinit="ConstInitUnsafe"):
        raise MachineryError("DrainBounds: vacuity - a threshold of W - M + 1 was not refuted")
    run.part("DrainBounds (Apalache: inductive invariant for unbounded W, M, MaxFill, call sizes; threshold W - M + 1 refuted)", obligations=n + 1)
    if run.thorough:
        # inputs that drive the real decoder across its capacity, decoded code by code by the specification (minutes of TLC time)
        _lzh_machine(run, [(314, 65535, "zero", 120000), (314, 65535, "ff", 140000), (314, 65535, "lcg", 130000), (314, 65535, "aa", 130000)])


def c15(run):
    for n, d in ((2, 10), (3, 7), (4, 6), (5, 5), (6, 4)):
        run.scen("MC_Huffman", {"NSym": n, "Depth": d + (1 if run.thorough else 0), "MaxCount": 1000}, invariants=("Inv", "OutOfRangeIsRefused", "Export"),
                 workers=8, name=f"MC_Huffman N={n}")
    # capacity on the model (small counters): refusal exactly when the root weight reaches MaxCount, tree unchanged
    for n, d, mc in ((2, 8, 6), (3, 7, 7), (4, 6, 8)):
        run.scen("MC_Huffman", {"NSym": n, "Depth": d, "MaxCount": mc}, invariants=("Inv", "OutOfRangeIsRefused", "Export"), workers=8, own=lambda m: False,
                 name=f"MC_Huffman N={n} MaxCount={mc} (model-level capacity; the code's counters are 16 bits wide)")
    # pipeline V at the real size: histories of the 314-symbol tree up to and across the 65221-update capacity
    exe = run.harness("huff_rec")
    pats = [("single", 65300), ("random", 65400), ("fib", 62000), ("lead", 36000)] + ([("roundrobin", 65300), ("sawtooth", 65300), ("random", 30000)] if run.thorough else [])
    from concurrent.futures import ThreadPoolExecutor

    def one(ps):
        pat, steps = ps
        log = os.path.join(vlib.scratch(), f"huff_{pat}_{steps}.ndjson")
        with open(log, "w") as f:
            f.write(json.dumps({"e": "Reset", "scenario": f"{pat} x {steps}"}) + "\n")
            f.flush()
            p = subprocess.run(["timeout", "600", exe, "--pattern", pat, "--steps", str(steps), "--table-every", "4096", "--seed", str(vlib.SEED)], stdout=f, stderr=subprocess.PIPE, text=True)
        crashed = p.returncode != 0
        return pat, steps, log, crashed, p.stderr[-600:]
    with ThreadPoolExecutor(max_workers=4) as ex:
        recs = list(ex.map(one, pats))
    for pat, steps, log, crashed, err in recs:
        if crashed:
            run.mismatches.append(dict(site=f"C15.history/{pat}", kind=vlib.classify_crash(err, 1), detail=f"recorder died on pattern {pat}: {err[-300:]}"))
        # vacuity guard: every pattern but "single" must really update many different symbols (a recorder that fell back to one symbol
        # would leave the capacity, long-code and lead histories unexercised without any check going red)
        if not crashed:
            syms = set()
            with open(log) as f:
                for line in f:
                    mm = re.search(r'"e":\s*"Upd".*?"x":\s*(\d+)', line)
                    if mm:
                        syms.add(int(mm.group(1)))
            if len(syms) < {"single": 1, "fib": 5}.get(pat, 20):           # (fib: the weights of about ten symbols form the Fibonacci ladder)
                raise MachineryError(f"vacuity: history '{pat}' updated only {len(syms)} distinct symbols")
        v = validate(run, "Trace_Huffman", log, f"C15.history/{pat}", constants={"NSym": 314, "MaxCount": 65535}, what="update history")
    run.sample({"history": "single x 65300", "events": "Upd(x, ok, path) per update, Table(paths of all symbols) every 4096 updates"})


# ======================================================================================================
# maps, bitmaps, tilesets, PRT

MAP_INV = ("ValueAcceptable", "TileCountIsProduct", "EncodeLength", "NormalFormIdempotent", "TrimLaws", "ProbeBijective", "Export")


def _map_edit(run, own):
    g = vlib.generate("MapEdit", {"Depth": 3 if run.thorough else 2}, invariants=("Export",), properties=("CellFrame", "LavaFrame", "VerFrame", "TrimFrame"), workers=8)
    run.add_model(g)
    run.sample({"id": g["records"][7]["id"], "edits": g["records"][7]["steps"][0]["edits"]})
    r = vlib.run_scenarios(run.harness("scen"), g["file"], run.pid)
    run.traces += r["scenarios"]; run.steps += r["steps"]; run.add_mismatches(r["mismatches"], own)
    run.part("MapEdit (edit state machine: every edit sequence to the depth bound from two maps)", behaviours=g["n"], tlc_states=g["states"], replayed=r["scenarios"])


def c06(run):
    own = lambda m: site_of(m).startswith(("map_roundtrip", "map_edits", "scenario")) and m["kind"] != "getter"
    run.scen("MC_Map", {"Tier": '"%s"' % run.tier, "Seed": vlib.SEED % 300, "NRand": 1500 if run.thorough else 250}, invariants=MAP_INV, workers=8, own=own)
    _map_edit(run, own)
    _c06_faulted(run)


def _c06_faulted(run):
    # the round-trip law on whatever the reader accepts among the faulted maps of the C07 fault model (fields that leave the layout alone)
    run.scen("MC_MapFault", {"Seed": vlib.SEED % 300, "NRand": 0}, small_heap=True, max_crashes=200, own=lambda m: "/roundtrip-law" in m["site"],
             name="MC_MapFault (round-trip law on accepted faulted maps)")


def c16(run):
    own = lambda m: site_of(m).startswith(("map_probe", "map_edits/cell", "map_edits/lava", "scenario"))
    run.scen("MC_Map", {"Tier": '"%s"' % run.tier, "Seed": 1, "NRand": 0}, invariants=MAP_INV, workers=8, own=own)
    _map_edit(run, own)


def c07(run):
    run.scen("MC_MapFault", {"Seed": vlib.SEED % 300, "NRand": 2000 if run.thorough else 400}, small_heap=True, max_crashes=200, own=lambda m: "/roundtrip-law" not in m["site"])
    # a saved game yields the same fields as a map holding the same embedded portion (specification: MapFile!SavedGame)
    run.scen("MC_Map", {"Tier": '"%s"' % run.tier, "Seed": vlib.SEED % 300, "NRand": 800 if run.thorough else 160}, invariants=MAP_INV, workers=8, own=by_prefix("save_equiv", "scenario"), name="MC_Map (saved game = map)")


BMP_INV = ("ValueIsValid", "FlipTwiceIsIdentity", "FlipReversesRows", "CanonIsCanonical", "EncodedLength", "TilesetLaws", "Export")


def IMG_RAND(run):
    return {"Seed": vlib.SEED % 300, "NRand": 1500 if run.thorough else 300}


def c08(run):
    run.scen("MC_Bmp", {"MaxWidth": 70 if run.thorough else 40, "Seed": vlib.SEED % 300, "NRand": 2000 if run.thorough else 300}, invariants=BMP_INV, workers=8, own=by_prefix("bmp_", "scenario"))
    # whatever the reader accepts among the faulted images of the C11 fault model must satisfy the post-conditions C08 states
    run.scen("MC_ImageFault", IMG_RAND(run), small_heap=True, max_crashes=300, own=lambda m: "/postcondition" in m["site"] and "/bmp." in m["site"], name="MC_ImageFault (post-conditions of accepted bitmaps)")


def c09(run):
    run.scen("MC_Bmp", {"MaxWidth": 40, "Seed": vlib.SEED % 300, "NRand": 1000 if run.thorough else 200}, invariants=BMP_INV, workers=8, own=by_prefix("tileset", "ts_detect", "scenario"))
    # whatever the detecting loader accepts among the faulted tilesets of the C11 fault model saves and loads back as the same picture
    run.scen("MC_ImageFault", IMG_RAND(run), small_heap=True, max_crashes=300, own=lambda m: "/postcondition" in m["site"] and "/tileset." in m["site"], name="MC_ImageFault (post-conditions of accepted tilesets)")


def c10(run):
    run.scen("MC_Prt", {"Seed": vlib.SEED % 300, "NRand": 600 if run.thorough else 120}, invariants=("RulesAsIntended", "TotalsMatch", "EncodingDeterminedByValue", "NonCanonicalHeaderSameLength", "Export"), workers=8)
    # whatever the reader accepts among the faulted PRT images of the C11 fault model satisfies the rules and round-trips
    run.scen("MC_ImageFault", IMG_RAND(run), small_heap=True, max_crashes=300, own=lambda m: "/postcondition" in m["site"] and "/prt." in m["site"], name="MC_ImageFault (post-conditions of accepted PRT files)")


def c11(run):
    run.scen("MC_ImageFault", IMG_RAND(run), small_heap=True, max_crashes=300, own=lambda m: "/postcondition" not in m["site"])


# ======================================================================================================
# streams

STREAM_CONTENTS = {"C1": [2, 0, 65, 0], "C2": [255, 255, 255, 255], "C3": [1, 66, 0, 128], "C4": [], "C5": [3, 0, 0, 0, 7, 8, 9], "C6": [9, 8, 7, 6, 5, 4, 3, 2, 1]}
SLICE_OPS = ("SliceAt", "SliceHere", "Drop")


def _stream_belongs(pid, m):
    """Which of C12 / C13 a disagreement of the reader walker speaks about (a defect may break both)."""
    op = m["site"].split(".", 1)[1].split("/")[0]
    cls = m["site"].rsplit("/", 1)[1]
    backend = m["site"].split(".", 1)[0]
    slice_matter = op in SLICE_OPS or m["kind"] in ("other-stream-changed", "live-count")
    in_bounds = cls == "small" and m["kind"] in ("state", "count", "bytes", "refused-should-accept")
    if pid == "C13":
        # a slice that lets an operation leave its extent (an out-of-bounds seek or read accepted, a failed call that moved it) is no longer
        # confined to its n bytes: every disagreement observed ON a slice backend speaks about C13 as well
        return slice_matter or in_bounds or backend in ("file", "memslice", "fileslice")
    return not slice_matter


def _streams(run):
    pid = run.pid
    _suite_trace(run)
    _internal_trace(run)
    # C12 is about one stream: exhaustive walks can go deeper; C13 needs the forest (slices of slices): the relation is much wider, so
    # exhaustive depth stays at 2 and the thorough tier adds a third live stream and a large seeded sample of long walks
    max_streams = 1 if pid == "C12" else (3 if run.thorough else 2)
    backends = ["mem", "memslice", "fileslice"] + (["file"] if pid == "C13" else [])
    harness = run.harness("stream_walk")
    work = os.path.join(vlib.scratch(), "sw")
    os.makedirs(work, exist_ok=True)
    contents = (["C1", "C2", "C3", "C4", "C6"] + (["C5"] if run.thorough else [])) if pid == "C12" else (["C1", "C2", "C3", "C4"] if run.thorough else ["C1", "C3", "C4"])
    jobs = []
    for cname in contents:
        g = vlib.generate("MC_StreamReader", {"MaxStreams": max_streams}, invariants=("PosInBounds", "Confined"), properties=("Independence",),
                          workers=8, tag="T", subst={"Content": cname})
        rel = g["records"]
        ops = {t["op"] for t in rel}
        needed = {"Read", "ReadPartial", "Peek", "Seek", "SeekForward", "SeekBackward", "SeekEnd", "SeekBeginning", "ReadCString"}
        if max_streams > 1:
            needed |= {"SliceAt", "SliceHere", "Drop"}
        if not needed <= ops:
            raise MachineryError("vacuity: actions never taken: %s" % (needed - ops))
        run.states += g["states"]
        run.transitions += len(rel)
        run.sample(rel[len(rel) // 3])
        for b in backends:
            jobs.append((cname, b, g["file"]))
    from concurrent.futures import ThreadPoolExecutor

    def depth_for(cname, backend):
        # an exhaustive walk replays its prefix from a fresh object and about half of all steps end in an exception: ~10 us per step in the
        # sanitizer build.  Depth 2 (17 k walks per content and backend) is the quick tier; depth 3 (2.3 M walks) runs in the thorough tier
        # on the memory backends, where no file has to be opened per walk
        n = len(STREAM_CONTENTS[cname])
        if pid == "C12" and run.thorough and not backend.startswith("file") and n <= 4:
            return 4 if n <= 1 else 3
        return 2

    def one(job):
        cname, b, relfile = job
        wd = os.path.join(work, f"{cname}_{b}")
        os.makedirs(wd, exist_ok=True)
        return job, vlib.run_isolated([harness, "--rel", relfile, "--content", ",".join(map(str, STREAM_CONTENTS[cname])) or ",",
                                       "--backend", b, "--depth", str(depth_for(cname, b)), "--random", "40000" if run.thorough else "1500",
                                       "--len", "60", "--workdir", wd, "--seed", str(vlib.SEED)], max_crashes=120, timeout=3400)
    with ThreadPoolExecutor(max_workers=vlib.NPROC) as ex:
        results = list(ex.map(one, jobs))
    for (cname, b, _), res in results:
        run.traces += res["summary"].get("walks", 0)
        run.steps += res["summary"].get("steps", 0)
        run.add_mismatches(res["mismatches"], lambda m: _stream_belongs(pid, m))
        run.part(f"StreamReader walk {cname}/{b}", walks=res["summary"].get("walks", 0), steps=res["summary"].get("steps", 0),
                 depth=depth_for(cname, b), max_streams=max_streams, crashes=res["crashes"])


def c12(run):
    _streams(run)
    run.scen("MC_Limits", {}, own=by_prefix("prefixed_read", "typed_roundtrip", "scenario"), name="MC_Limits (size-prefixed reads on long streams, typed round trips incl. wide strings)")


def _trace_owner(site):
    """Which property an event recorded through the stream hooks speaks about."""
    if any(f".{k}." in site for k in ("fixed", "grow", "filew")):
        return "C14"
    return "C13" if ("Slice" in site or ".file." in site) else "C12"


def _suite_trace(run):
    """Pipeline V on the repository's own test suite: every stream operation the 141 tests perform, validated by Trace_StreamOps."""
    if not os.path.exists(os.path.join(vlib.REPO, "src", "Stream", "VerifTrace.h")):
        run.part("repository test suite traced through the stream hooks", skipped="the tree under test does not carry the verification hooks")
        return
    log, passed = vlib.run_suite_traced()
    n0 = len(run.mismatches)
    v = validate(run, "Trace_StreamOps", log, "suite", what="repository test suite")
    for m in run.mismatches[n0:]:
        mk, mo = re.search(r'"kind": "(\w+)"', m["detail"]), re.search(r'"op": "(\w+)"', m["detail"])
        kind, op = (mk.group(1) if mk else "?"), (mo.group(1) if mo else "?")
        m["site"] = f"suite.{kind}.{op}/trace"
    # which of the stream properties an event of the suite speaks about: writers are C14's, slices and bare file readers C13's, the rest C12's
    run.mismatches[n0:] = [m for m in run.mismatches[n0:] if _trace_owner(m["site"]) == run.pid]
    run.part("repository test suite traced through the stream hooks", tests_passed=passed, events=v["events"])


def _internal_trace(run):
    """Pipeline V on the stream operations the library performs INTERNALLY while it packs, opens, lists, extracts and loads (also from
    faulted images): the scenario interpreter replays small instances of the format and fault models, its first shard with the stream
    hooks recording, and Trace_StreamOps validates every recorded operation."""
    if not os.path.exists(os.path.join(vlib.REPO, "src", "Stream", "VerifTrace.h")):
        return
    rnd = {"Seed": vlib.SEED % 300, "NRand": 60 if run.thorough else 20}
    gens = [("MC_Vol", dict(rnd, MaxFiles=2 if run.thorough else 1, Big="FALSE"), VOL_INV), ("MC_Clm", dict(rnd, MaxFiles=1), CLM_INV), ("MC_VolRef", {}, ()),
            ("MC_VolFault", rnd, ()), ("MC_ClmFault", rnd, ()), ("MC_Map", dict(rnd, Tier='"quick"'), MAP_INV), ("MC_Bmp", dict(rnd, MaxWidth=9), BMP_INV), ("MC_Prt", rnd, ("Export",))]
    log = os.path.join(vlib.scratch(), "internal_trace.ndjson")
    events = 0
    with open(log, "w") as f:
        for module, constants, inv in gens:
            g = vlib.generate(module, constants, invariants=inv, workers=8, small_heap=module.endswith("Fault"))
            raw = os.path.join(vlib.scratch(), f"internal_{module}.raw")
            r = vlib.run_scenarios(run.harness("scen"), g["file"], run.pid, trace=raw, max_crashes=200)
            run.traces += r["scenarios"]; run.steps += r["steps"]          # (the scenarios' own oracles belong to other properties: not reported here)
            if os.path.exists(raw):
                f.write(json.dumps({"e": "Reset", "scenario": f"stream operations inside the library during the replay of {module}"}) + "\n")
                for line in open(raw, errors="replace"):
                    if line.endswith("}\n"):
                        f.write(line); events += 1
                os.remove(raw)
    n0 = len(run.mismatches)
    v = validate(run, "Trace_StreamOps", log, "internal", what="library-internal stream operations")
    for m in run.mismatches[n0:]:
        mk, mo = re.search(r'"kind": "(\w+)"', m["detail"]), re.search(r'"op": "(\w+)"', m["detail"])
        m["site"] = f"internal.{mk.group(1) if mk else '?'}.{mo.group(1) if mo else '?'}/trace"
    run.mismatches[n0:] = [m for m in run.mismatches[n0:] if _trace_owner(m["site"]) == run.pid]
    run.part("library-internal stream operations during scenario replays (hooks)", events=events, modules=[g[0] for g in gens])


def c13(run):
    _streams(run)
    # member streams of one archive object, copies of them and archive calls, interleaved (VOL and CLM)
    for sizes in (("SizesA", "SizesB") if run.thorough else ("SizesA",)):
        g = vlib.generate("ArchiveStreams", {"MaxStreams": 3, "Depth": 4}, invariants=("PosInBounds", "Export"), properties=("Independence", "CallsDisturbNothing"),
                          workers=8, subst={"Sizes": sizes})
        run.add_model(g)
        run.sample(g["records"][len(g["records"]) // 2]["steps"][0]["ops"])
        r = vlib.run_scenarios(run.harness("scen"), g["file"], run.pid)
        run.traces += r["scenarios"]; run.steps += r["steps"]; run.add_mismatches(r["mismatches"])
        run.part(f"ArchiveStreams {sizes} (member streams x copies x archive calls, VOL and CLM)", behaviours=g["n"], tlc_states=g["states"], replayed=r["scenarios"])


def c14(run):
    _suite_trace(run)          # the writer operations of the repository's own tests ...
    _internal_trace(run)       # ... and those the library performs internally while serialising, validated by Trace_StreamOps
    depth = 4 if run.thorough else 3
    harness = run.harness("writer_walk")
    for machine, n in (("fixed", 3), ("grow", 3), ("file", 3)) + ((("fixed", 4), ("grow", 4), ("file", 4), ("fixed", 0)) if run.thorough else (("fixed", 0),)):
        g = vlib.generate("MC_StreamWriter", {"Machine": '"%s"' % machine, "N": n}, invariants=("PosInBounds",), properties=("FrameCondition",),
                          workers=8, tag="T")
        run.states += g["states"]
        run.transitions += g["n"]
        run.sample(g["records"][len(g["records"]) // 2])
        res = vlib.run_isolated([harness, "--rel", g["file"], "--machine", machine, "--n", str(n), "--depth", str(depth if machine != "file" else min(depth, 3)),
                                 "--file", os.path.join(vlib.shm_dir(), f"fw_{n}.bin"),
                                 "--random", "5000" if run.thorough else "1500", "--len", "40", "--seed", str(vlib.SEED)], max_crashes=60)
        run.traces += res["summary"].get("walks", 0)
        run.steps += res["summary"].get("steps", 0)
        run.add_mismatches(res["mismatches"])
        run.part(f"StreamWriter walk {machine} N={n}", walks=res["summary"].get("walks", 0), steps=res["summary"].get("steps", 0), depth=depth)


    # (c) size-prefixed writes refuse what does not fit and are inverted by the typed reads
    run.scen("MC_Limits", {}, own=by_prefix("prefixed_write", "typed_roundtrip", "scenario"), name="MC_Limits (size-prefixed containers, typed round trips)")
    # (d) the copy loop: TLC checks termination and dest = src[start..len) on the loop as the code structures it, exports every behaviour
    g = vlib.generate("CopyLoop", {"MaxLen": 9 if run.thorough else 7, "MaxChunk": 4}, invariants=("PosInBounds", "CopiesExactlyTheRest", "OnlySourceBytes", "ReadCount", "Export"),
                      properties=("Terminates", "RefinesBounds"), workers=4)
    run.add_model(g)
    run.sample(g["records"][len(g["records"]) // 2])
    r = vlib.run_scenarios(run.harness("scen"), g["file"], run.pid)
    run.traces += r["scenarios"]; run.steps += r["steps"]; run.add_mismatches(r["mismatches"])
    run.part("CopyLoop (all lengths x chunk sizes x start positions, five backends)", behaviours=g["n"], tlc_states=g["states"])
    # for EVERY length, start position and chunk size: the counters-only machine CopyBounds (which CopyLoop has just been shown to refine)
    n = vlib.inductive("CopyBounds", "IndInv", goals=("CopiesExactlyTheRest",))
    run.part("CopyBounds (Apalache: inductive invariant for unbounded length, start, chunk size)", obligations=n)
    run.scen("MC_CopyBig", {}, name="MC_CopyBig (default 128 KiB chunk)")
    # (e) the open-flag matrix
    g = vlib.generate("FileOpen", {}, invariants=("OpenedExists",), properties=("RefusedChangesNothing", "AppendPreserves", "FreshStartsEmpty", "GrowsBySuffix"), workers=4)
    run.add_model(g)
    r = vlib.run_scenarios(run.harness("scen"), g["file"], run.pid)
    run.traces += r["scenarios"]; run.steps += r["steps"]; run.add_mismatches(r["mismatches"])
    run.part("FileOpen (16 flag combinations x path states x 0..2 writes)", scenarios=g["n"], tlc_states=g["states"])


# ======================================================================================================
# determinism, names

def c18(run):
    """Every serialisation / parsing scenario is executed in environments that differ in compiler, heap fill, stack fill and
    address-space layout (and, inside the recorder, in input order and path spelling); Trace_Determinism requires every
    observation of a scenario to reproduce the first one."""
    from concurrent.futures import ThreadPoolExecutor
    builds = [("g++", "gcc0"), ("clang++", "clang0")]
    fills = [0, 165, 255]
    jobs = []
    for cxx, tag in builds:
        exe = run.harness("det_rec", cxx=cxx, extra_flags="-fno-inline", opt="-O0", tag=tag)
        for fill in fills:
            jobs.append((tag, fill, False, exe))
        jobs.append((tag, 90, True, exe))                       # one more with address-space randomisation switched off
    if run.thorough:
        exe = run.harness("det_rec", cxx="g++", extra_flags="", opt="-O2", tag="gcc2")
        jobs += [("gcc2", f, False, exe) for f in fills]
    work = vlib.shm_dir()

    def one(job):
        tag, fill, noaslr, exe = job
        env = dict(os.environ, MALLOC_PERTURB_=str(fill))
        name = f"{tag}-fill{fill}" + ("-noaslr" if noaslr else "")
        cmd = (["setarch", "-R"] if noaslr else []) + [exe, "--env", name, "--paint", str(fill), "--workdir", os.path.join(work, name)]
        p = subprocess.run(["timeout", "300"] + cmd, capture_output=True, text=True, env=env)
        if p.returncode != 0 and noaslr and "setarch" in (p.stderr or ""):
            return name, None                                                            # personality() not permitted here: skip this environment
        if p.returncode != 0:
            raise MachineryError(f"determinism recorder failed in environment {name}: rc={p.returncode} {p.stderr[-800:]}")
        return name, [json.loads(l) for l in p.stdout.split("\n") if l.startswith("{")]
    with ThreadPoolExecutor(max_workers=len(jobs)) as ex:
        results = [r for r in ex.map(one, jobs)]
    by_sc, envs = {}, []
    for name, evs in results:
        if evs is None:
            continue
        envs.append(name)
        for e in evs:
            if e.get("e") == "Observe":
                by_sc.setdefault(e["sc"], []).append(e)
    if len(envs) < 6 or not by_sc:
        raise MachineryError("too few environments produced observations: %s" % envs)
    log = os.path.join(vlib.scratch(), "determinism.ndjson")
    with open(log, "w") as f:
        for sc, evs in sorted(by_sc.items()):
            f.write(json.dumps({"e": "Reset", "scenario": sc}) + "\n")
            for e in evs:
                f.write(json.dumps(e) + "\n")
    run.sample({"scenario": sorted(by_sc)[0], "observations": by_sc[sorted(by_sc)[0]][:3]})
    run.part("determinism recorder", environments=envs, scenarios=len(by_sc), observations=sum(len(v) for v in by_sc.values()))
    v = validate(run, "Trace_Determinism", log, "C18", what="scenario")
    # name the scenario in the signature so that a different non-deterministic scenario is a different finding
    for m in run.mismatches:
        mm = re.search(r'"sc": "([^"]+)"', m["detail"])
        if mm:
            m["site"] = "C18." + mm.group(1)
            m["kind"] = "differs-between-environments"
    _c18_memcheck(run)
    _c18_scenarios(run)


def _c18_memcheck(run):
    """The recorder's scenarios once more under a definedness checker (valgrind memcheck): a serialiser that writes bytes it never
    initialised is reported whatever those bytes happen to be ("Syscall param write(buf) points to uninitialised byte(s)")."""
    if not shutil.which("valgrind"):
        run.part("memcheck", skipped="valgrind is not installed")
        return
    exe = run.harness("det_rec", cxx="g++", extra_flags="-fno-inline", opt="-O0", tag="gcc0")
    work = os.path.join(vlib.shm_dir(), "memcheck")
    p = subprocess.run(["timeout", "900", "valgrind", "--quiet", "--error-exitcode=77", exe, "--env", "memcheck", "--paint", "90", "--workdir", work],
                       capture_output=True, text=True)
    if p.returncode == 77:
        first = re.sub(r"==\d+== ?", "", p.stderr)[:900]
        what = first.split("\n")[0].strip()
        frames = [l.strip() for l in first.split("\n") if "OP2Utility::" in l][:2]
        run.mismatches.append(dict(site="C18.memcheck/" + re.sub(r"[^A-Za-z0-9]+", "-", what)[:60], kind="reported-by-the-definedness-checker",
                                   detail=what + " | " + " | ".join(frames)))
    elif p.returncode != 0:
        raise MachineryError(f"the recorder failed under valgrind: rc={p.returncode} {p.stderr[-600:]}")
    run.traces += 1
    run.part("determinism recorder under valgrind memcheck", errors=p.returncode == 77)


def _c18_scenarios(run):
    """The serialisation scenarios of C01-C10 (the TLC-exported file sets, maps, bitmaps, tilesets, PRT values) once more, with the
    allocator handing out memory filled with 0x00 / 0xFF (the other checks run with 0xBE), the stack below the interpreter painted
    with the same byte before every step and, in the thorough tier, with automatic variables pre-filled with a pattern: the bytes written must equal the specification's encoding in every one of these environments."""
    rnd = {"Seed": vlib.SEED % 300, "NRand": 300 if run.thorough else 60}
    gens = [("MC_Vol", dict(rnd, MaxFiles=3, Big="FALSE") if run.thorough else dict(rnd, MaxFiles=1, Big="FALSE"), VOL_INV),
            ("MC_Clm", dict(rnd, MaxFiles=2 if run.thorough else 1), CLM_INV),
            ("MC_Map", dict(rnd, Tier='"quick"'), MAP_INV),
            ("MC_Bmp", dict(rnd, MaxWidth=12), BMP_INV),
            ("MC_Prt", rnd, ("Export",)),
            ("MC_VolRef", {}, ()),                                        # archives of the reference encoder: LZH members are decoded on extraction
            ("MC_Lzh", {"NSym": 314, "MaxCount": 65535, "MaxToks": 1}, ())]     # the decoder on every single token (matches reaching before the start of the output) and on raw bytes
    envs = [("heap00", dict(ASAN_OPTIONS=vlib.ASAN_ENV + ":malloc_fill_byte=0:max_malloc_fill_size=1048576", VERIF_STACK_PAINT="0"), "san"),
            ("heapFF", dict(ASAN_OPTIONS=vlib.ASAN_ENV + ":malloc_fill_byte=255:max_malloc_fill_size=1048576", VERIF_STACK_PAINT="255"), "san")]
    if run.thorough:
        envs.append(("stackAA", dict(ASAN_OPTIONS=vlib.ASAN_ENV + ":malloc_fill_byte=85:max_malloc_fill_size=1048576"), "sanpat"))
    for module, constants, inv in gens:
        g = vlib.generate(module, constants, invariants=inv, workers=8)
        run.add_model(g)
        for ename, env, tag in envs:
            exe = run.harness("scen") if tag == "san" else run.harness("scen", extra_flags=vlib.SAN_FLAGS + " -ftrivial-auto-var-init=pattern", tag=tag)
            r = vlib.run_scenarios(exe, g["file"], run.pid, env=env)
            run.traces += r["scenarios"]; run.steps += r["steps"]
            for m in r["mismatches"]:
                m["site"] = f"C18.{ename}/" + site_of(m)
            run.add_mismatches(r["mismatches"])
            run.part(f"{module} scenarios in environment {ename}", scenarios=r["scenarios"], steps=r["steps"], crashes=r["crashes"])


def validate(run, module, log, site_prefix, constants=None, what="recorded execution"):
    """Pipeline V: TLC validates a recorded ndjson log against spec/<module>.tla; every rejected execution is a mismatch."""
    v = vlib.validate_log(module, log, constants=constants)
    run.states += v["events"]
    run.transitions += v["events"]
    run.traces += v["executions"]
    run.part(f"{module} (trace validation)", events=v["events"], executions=v["executions"], rejected=len(v["rejections"]), tlc_runs=v["tlc_runs"])
    for rj in v["rejections"]:
        ev = rj["event"]
        site = site_prefix + "/" + str(ev.get("call", ev.get("e", "?")))
        run.mismatches.append(dict(site=site, kind="rejected-by-specification",
                                   detail=f"{what} {rj['scenario']}: the specification does not allow event #{rj['line']} {json.dumps(ev)[:600]} "
                                          f"after {json.dumps(rj['previous'])[:300]}"))
    return v


def c19(run):
    # (i) the order laws on every triple of the universe, checked by TLC on the specification's relation
    maxlen = 3 if run.thorough else 2
    cfg = os.path.join(vlib.scratch(), "MC_Names.cfg")
    laws = ("Irreflexive", "Asymmetric", "Transitive", "IncomparabilityIsCIEqual", "IncomparabilityTransitive")
    open(cfg, "w").write(vlib.cfg_text({"MaxLen": maxlen}, invariants=laws))
    r = vlib.run_tlc("MC_Names", cfg, tags=(), workers=vlib.NPROC, timeout=3000)
    if r["violation"] or not r["ok"]:
        raise MachineryError("MC_Names: the specification's order relation violates a law:\n" + r["stdout"][-2000:])
    run.states += r.get("distinct", 0)
    run.transitions += r.get("generated", 0)
    run.part("MC_Names (order laws on all triples)", MaxLen=maxlen, triples=r.get("distinct", 0))
    # (ii) the code's comparator equals that relation pairwise (G); path laws and random triples are recorded (V)
    g = vlib.generate("MC_NamesExport", {"MaxLen": maxlen}, invariants=("UniverseIsComplete", "Export"), workers=8)
    run.add_model(g)
    rel = next(r for r in g["records"] if r["id"][0] == "rel" and r["id"][1] == 4)
    run.sample({"id": rel["id"], "first_pairs": rel["steps"][0]["pairs"][:4]})
    res = vlib.run_scenarios(run.harness("scen"), g["file"], "C19", log=True)
    run.traces += res["scenarios"]
    run.steps += res["steps"]
    run.add_mismatches(res["mismatches"])
    run.part("MC_NamesExport (relation compared pairwise, laws recorded)", scenarios=res["scenarios"], universe=len(g["records"]) - 5)
    validate(run, "Trace_PathLaws", res["log"], "C19.path_laws", what="path-law recording")
    # (iii') the relation as the archive writers use it: inputs given as bare names and with directory parts must be ordered, and their
    # duplicates detected, by file name alone (the comparator itself is not public; it is observed through VolFile::CreateArchive)
    run.scen("MC_Vol", dict(VOL_NORAND, MaxFiles=1, Big="FALSE"), invariants=VOL_INV, workers=4, own=by_prefix("vol_create", "file_eq", "vol_open", "scenario"),
             name="MC_Vol (member order and duplicate detection through the writer, mixed path forms)")
    # (iv) powers of two: all 2^32 inputs against the exponent set exported by TLC
    rr = vlib.generate("MC_NamesExport", {"MaxLen": 0}, invariants=("Export",), tag="P")
    exps = rr["records"][0]["exponents"]
    src, _ = run.impl()
    exe = os.path.join(vlib.scratch(), "pow2_walk")
    c = vlib.sh(f"clang++ -std=c++17 -O2 -I{src}/src {vlib.VERIF}/harness/pow2_walk.cpp {src}/src/BitTwiddle.cpp -o {exe}")
    if c.returncode:
        raise MachineryError("pow2_walk does not compile:\n" + c.stderr[-2000:])
    p = vlib.sh(["timeout", "600", exe, ",".join(map(str, exps))])
    if "SUMMARY" not in p.stdout:
        raise MachineryError("pow2_walk failed: " + p.stdout[-500:] + p.stderr[-500:])
    for line in p.stdout.split("\n"):
        if line.startswith("MISMATCH "):
            m = json.loads(line[9:])
            m["site"] = "C19." + m["site"]
            run.mismatches.append(m)
    run.traces += 1
    run.part("powers of two (all 2^32 inputs)", exponents=len(exps))


def c05(run):
    # VOL images: field-aware fault model (TLC) -> call scripts on long-lived and fresh objects (recorded) -> loose contract (TLC)
    rnd = {"Seed": vlib.SEED % 300, "NRand": 1500 if run.thorough else 300}
    for module in ("MC_VolFault", "MC_ClmFault"):
        g, r = run.scen(module, rnd, log=True, max_crashes=200)
        lines = [l for l in open(r["log"])] if r["log"] else []
        if not lines:
            raise MachineryError(module + ": nothing was recorded")
        validate(run, "Trace_ArchiveRobust", r["log"], "C05." + ("vol" if "Vol" in module else "clm"), what="call script on faulted image")


# ======================================================================================================
# beyond the listed properties ("extras"): conformance of specification modules that no property of properties.jsonl names.
# A disagreement here is reported as EXTRA-DISAGREEMENT (never as a VIOLATION of a listed property); results go to /verif/extras/.

def x01(run):
    """Path helpers (XPaths: explicit lexical model) and the list helpers of StringUtility."""
    for ts in ("TRUE", "FALSE"):      # both flavours of the path library; the harness replays the one it was linked with
        run.scen("MC_XPaths", {"TS": ts}, invariants=("SplitJoin", "StemExt", "ChangeThenMatch", "ReplaceKeepsDirectory", "Export"), workers=4, name=f"MC_XPaths TS={ts}")
    run.scen("MC_XStrings", {}, invariants=("RemovalIsIdempotent", "RemovedAreGone", "Export"), workers=8)


def x02(run):
    """The file-system helpers of XFile and FileWriter's file creation as a state machine (XFs): exhaustive walks on a real directory."""
    g = vlib.generate("MC_XFs", {}, invariants=("TypeOK",), workers=4, tag="T")
    run.states += g["states"]; run.transitions += g["n"]
    run.sample(g["records"][len(g["records"]) // 2])
    ops = {t["op"] for t in g["records"]}
    if ops != {"NewDirectory", "WriteFile", "DeletePath", "RenameFile"}:
        raise MachineryError("vacuity: actions of XFs never taken: %s" % ops)
    res = vlib.run_isolated([run.harness("fs_walk"), "--rel", g["file"], "--root", vlib.shm_dir(), "--depth", "3" if run.thorough else "2",
                             "--random", "6000" if run.thorough else "2500", "--len", "30", "--seed", str(vlib.SEED)], max_crashes=40)
    run.traces += res["summary"].get("walks", 0); run.steps += res["summary"].get("steps", 0)
    run.add_mismatches(res["mismatches"])
    run.part("XFs walk", walks=res["summary"].get("walks", 0), steps=res["summary"].get("steps", 0), tlc_states=g["states"], transitions=g["n"])
