#!/usr/bin/env python3
"""Second phase of tools/mutation_campaign.py:  tools/mutation_cross.py [--jobs J]

A mutant that survives the quick check of the property it was sampled for may simply belong to another property that anchors the same
file.  For every survivor in out/mutation/results.json this runs the quick checks of all OTHER properties whose anchors list the mutated
file and reports the mutants that no check at all catches (equivalent mutants or real holes) in out/mutation/uncaught.txt."""
import json, os, re, subprocess, sys, tempfile, shutil, queue
from concurrent.futures import ThreadPoolExecutor
VERIF = os.path.dirname(os.path.dirname(os.path.abspath(__file__)))
REPO = "/repo"


def sh(cmd, **kw):
    return subprocess.run(cmd, shell=isinstance(cmd, str), capture_output=True, text=True, errors="replace", **kw)


def main():
    jobs = int(sys.argv[sys.argv.index("--jobs") + 1]) if "--jobs" in sys.argv else 4
    P = {json.loads(l)["id"]: json.loads(l) for l in open(os.path.join(VERIF, "properties.jsonl"))}
    res = json.load(open(os.path.join(VERIF, "out", "mutation", "results.json")))
    seen, work = set(), []
    for r in res:
        if r["status"] != "SURVIVED":
            continue
        key = (r["m"]["file"], r["m"]["line"], r["m"]["op"], r["m"]["new"])
        if key in seen:
            continue
        seen.add(key)
        others = sorted(p for p in P if r["m"]["file"] in P[p]["anchors"]["files"] and p != r["pid"])
        work.append((r, others))
    base = tempfile.mkdtemp(prefix="op2mx.", dir=os.environ.get("TMPDIR", "/tmp"))
    wts = queue.Queue()
    for k in range(jobs):
        wt = os.path.join(base, f"w{k}")
        assert sh(["git", "-C", REPO, "worktree", "add", "--detach", wt, "HEAD"]).returncode == 0
        wts.put(wt)
    out = []

    def one(job):
        r, others = job
        m = r["m"]
        wt = wts.get()
        try:
            path = os.path.join(wt, m["file"])
            lines = open(path).read().split("\n")
            if lines[m["line"] - 1] != m["old"]:
                return dict(m=m, first=r["pid"], status="stale (the line has changed since)", by=[])
            lines[m["line"] - 1] = m["new"]
            open(path, "w").write("\n".join(lines))
            by = []
            for pid in others:
                env = dict(os.environ, VERIF_REPO=wt, VERIF_NO_EVIDENCE="1")
                c = sh([sys.executable, os.path.join(VERIF, "tools", "check.py"), pid, "quick"], env=env, cwd=VERIF, timeout=3000)
                if c.returncode == 1:
                    by.append((pid, re.findall(r"signature (\S+):", c.stdout)[:1]))
                    break
            return dict(m=m, first=r["pid"], status="caught elsewhere" if by else "UNCAUGHT", by=by, tried=others)
        finally:
            sh(["git", "-C", wt, "checkout", "--", "."])
            wts.put(wt)
    with ThreadPoolExecutor(max_workers=jobs) as ex:
        for x in ex.map(one, work):
            out.append(x)
            print(f"{x['status']:18s} {x['m']['file']}:{x['m']['line']} {x['m']['op']} (sampled for {x['first']}) {x['by']}", flush=True)
    for k in range(jobs):
        sh(["git", "-C", REPO, "worktree", "remove", "--force", os.path.join(base, f"w{k}")])
    sh(["git", "-C", REPO, "worktree", "prune"]); shutil.rmtree(base, ignore_errors=True)
    with open(os.path.join(VERIF, "out", "mutation", "uncaught.txt"), "w") as f:
        for x in out:
            if x["status"] != "caught elsewhere":
                f.write(f"{x['status']} {x['m']['file']}:{x['m']['line']} [{x['m']['op']}] sampled for {x['first']}, also tried {x.get('tried')}\n  - {x['m']['old'].strip()}\n  + {x['m']['new'].strip()}\n")
    json.dump(out, open(os.path.join(VERIF, "out", "mutation", "cross.json"), "w"), indent=1)


if __name__ == "__main__":
    main()
