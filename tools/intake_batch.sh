#!/bin/bash
# usage: tools/intake_batch.sh <file with lines: name|property|worktree|summary|needs>   (runs the intakes in parallel)
while IFS='|' read -r name prop wt summary needs; do
  [ -z "$name" ] && continue
  ( python3 "$(dirname "$0")/seed_intake.py" "$name" "$prop" "$wt" "$summary" "$needs" > /tmp/runlogs/intake_$name.log 2>&1; echo "$name: $(tail -1 /tmp/runlogs/intake_$name.log)" ) &
done < "$1"
wait
